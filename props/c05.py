"""C05 - the latest implementation for the active context is the one that supplies a spec.

Model checking over registration histories: every sequence of <= L implementations of one
registry point (each bound to HostContext, HostArchiveContext, either, or reached through a
helper datasource; each with an outcome), registered through the REAL SpecSet metaclass in
several class layouts, evaluated under each active context and compared with the reference
resolution rule.  Part "multi-point": histories over several specs whose implementations are bound
to each other (to another registry point that gains contexts over time, or to an earlier
implementation of the same spec), see multi_reference / multi_histories.
"""
import itertools
import os

from mc.result import Result
from mc import enumx

ID = "C05"
LEVEL = "model_checking"
TECHNIQUE = ("exhaustive enumeration of registration histories (sequences of spec implementations x context bindings x outcomes x "
             "class layouts) through the real SpecSet metaclass, each evaluated under every active context against a reference resolution rule")
LEVEL_TEXT = ("All registration sequences of <= 3 (quick) / <= 4 (thorough) implementations of a registry point - bound to context A, B, "
              "at-least-one [A,B] or transitively through a helper datasource; function datasources and simple_file objects over real "
              "present/missing files; outcomes value / falsy value 0 / skip / content error / crash - in four class layouts (siblings, deeper subclass, two "
              "registry points, a LAYERED spec set that re-declares the point with implementations registered against either level, and ONE CLASS BODY that "
              "defines two specs of which the later one is bound to the other registry point - both alphabetical name orders) are registered with the real metaclass and evaluated under each active context. The value of the point, the "
              "set of implementation bodies executed, the value a consuming parser receives and the propagated flags are compared with the "
              "reference rule 'last registered implementation whose context set contains the active context, or nothing' - after the whole "
              "history and, in one process on the same objects, after every registration prefix. A fifth part enumerates histories over "
              "SEVERAL specs bound to each other (layout multi-point): (i) point-growth - every interleaving of <= 2 context implementations of a "
              "registry point b, 1..2 (thorough 3) implementations of a spec a bound to a context or to the registry point b, and <= 1 observing "
              "spec c bound to the point a or b, so that a point gains contexts before / between / after the things bound to it are "
              "registered; (ii) built-on-top - <= 3 (thorough 4) implementations of one spec of which later ones are bound directly, or through a "
              "helper datasource, to an EARLIER implementation of the same spec; reference: an implementation bound to a point / an implementation is declared for the "
              "contexts reachable through it, an overridden implementation is not executed (so whatever is built on it cannot yield) and "
              "the spec is never filled from an implementation its handler overrides.")
LEVEL_NOTE = ("Histories are enumerated completely up to L; the state after each history is the real dr/SpecSet registry state. Context-free "
              "implementations are outside the alphabet (the statement speaks of implementations declared for a context).")
RULE = ("sequence of implementations (binding x outcome) x layout x active context; non-trivial = at least two implementations are declared "
        "for the active context (an override actually happens); states = distinct registration histories (prefix-closed), transitions = "
        "implementation registrations performed, traces = complete evaluate-and-compare executions; multi-point part: sequence of "
        "(spec, binding in context | registry point | earlier implementation | helper of an earlier implementation, outcome) x active "
        "context, non-trivial = an override happens in a history that contains a point / implementation binding and is not 'ambiguous' "
        "(a point gained the active context after an implementation bound to it was registered for a spec with several implementations: "
        "the statement does not say whether that implementation is declared for the context; only 'dr.run returns' is demanded there)")
ASSUMPTIONS = ["reference resolution rule as stated in the property"]
BOUNDS = {"quick": {"max_impls": 3,
                    "multi_point": {"point_growth": "<=2 b-steps (distinct contexts, value) + 1..2 a-steps (A|B|point:b; last one value|skip) "
                                                    "+ <=1 c-step (point:a|point:b), all interleavings, <=5 steps",
                                    "built_on_top": "2..3 steps of one spec, A|B|AB|impl:j|via:j x value|skip, at least one impl/via binding"}},
          "thorough": {"max_impls": 4,
                       "multi_point": {"point_growth": "<=2 b-steps (A|B x value|skip) + 1..3 a-steps (A|B|point:b x value|skip) + <=1 c-step, "
                                                       "all interleavings, <=5 steps",
                                       "built_on_top": "2..4 steps of one spec, A|B|AB|impl:j|via:j x value|skip, at least one impl/via binding"}}}
CAP_S = {"quick": 200, "thorough": 3600}

BINDINGS = ["A", "B", "AB", "viaA", "viaB", "free"]
OUTCOMES = ["value", "zero", "skip", "content", "error"]      # "zero": a falsy but real value (0)
FILE_IMPLS = [("A", "file:present"), ("A", "file:missing"), ("B", "file:present")]
LAYOUTS = ["siblings", "deeper-last", "two-points"]

_counter = [0]


def impl_alphabet():
    return [(b, o) for b in BINDINGS for o in OUTCOMES] + FILE_IMPLS


def units(tier, seed):
    L = BOUNDS[tier]["max_impls"]
    alpha = impl_alphabet()
    us = []
    for layout in LAYOUTS:
        for first in range(len(alpha)):
            for n in range(1, L + 1):
                if n >= 3:
                    for second in range(len(alpha)):
                        us.append({"layout": layout, "n": n, "first": first, "second": second})
                else:
                    us.append({"layout": layout, "n": n, "first": first})
    # layered spec sets: small alphabet (A / B / AB x value / skip) x the level each implementation is registered against
    for n in range(1, 4):
        for layer_at in range(0, min(n, 2)):
            us.append({"layout": "layered", "n": n, "layer_at": layer_at})
    # one class BODY that defines two specs: the implementation of `point` is bound to ANOTHER REGISTRY POINT whose
    # implementation (which brings the context) stands earlier in the same body; both alphabetical name orders
    for n in range(0, 3):
        for helper_name in ("aux", "zaux"):
            us.append({"layout": "same-body", "n": n, "helper_name": helper_name})
    # histories over several specs bound to each other (registry point that grows / implementation built on an earlier one)
    for family in ("point-growth", "built-on-top"):
        for shard in range(MULTI_SHARDS):
            us.append({"layout": "multi-point", "family": family, "shard": shard})
    return us


def unit_weight(u):
    if u["layout"] in ("multi-point", "same-body"):
        return 6         # few, small units: started first so that a wall-clock-capped run on a busy machine still completes them
    return u["n"] + (2 if u["layout"] == "layered" else 0)


def ctx_set(binding):
    # "free" = an implementation bound to no context at all (it runs under every context and takes no
    # part in the ignore mechanism); only the positive resolution clause is applied to it, see check_case
    return {"A": {"A"}, "B": {"B"}, "AB": {"A", "B"}, "viaA": {"A"}, "viaB": {"B"}, "free": {"A", "B"}}[binding]


def check_case(case):
    """case = {"impls": [[binding, outcome], ...], "layout": ..., "active": "A"|"B"}"""
    from insights.core import dr, plugins
    from insights.core.context import HostContext, HostArchiveContext
    from insights.core.exceptions import ContentException, SkipComponent
    from insights.core.spec_factory import RegistryPoint, SpecSet, SpecSetMeta, simple_file
    from insights.core.plugins import datasource
    from harness import graphs as G
    from harness.tmp import scratch

    CTX = {"A": HostContext, "B": HostArchiveContext}
    _counter[0] += 1
    tag = "c05_%d" % _counter[0]
    impls = case["impls"]
    layout = case["layout"]
    active = case["active"]
    vio = []
    log = []
    created = []
    classes = []
    with scratch("c05") as root:
        with open(os.path.join(root, "present.txt"), "w") as fh:
            fh.write("line1\nline2\n")
        try:
            flags = dict(multi_output=False, raw=False, filterable=False, no_obfuscate=["hostname"], no_redact=True, prio=7)
            point = RegistryPoint(**flags)
            created.append(point)
            base_dct = {"point": point, "__module__": G.MODNAME}
            other = None
            if layout == "two-points":
                other = RegistryPoint()
                created.append(other)
                base_dct["other"] = other
            Base = SpecSetMeta(tag + "_Base", (SpecSet,), base_dct)
            classes.append(Base)
            # a consuming parser-like component
            got = []

            def consumer(v):
                got.append(v)
                return ("parsed", v)
            consumer.__name__ = tag + "_consumer"
            consumer.__module__ = G.MODNAME
            plugins.parser(point)(consumer)
            created.append(consumer)

            impl_objs = []
            wired = []
            layer = []
            parent = Base

            def register(k):
                binding, outcome = impls[k]
                def make_body(k=k, outcome=outcome):
                    def body(broker):
                        log.append(k)
                        if outcome == "value":
                            return "value-%d" % k
                        if outcome == "zero":
                            return 0
                        if outcome == "skip":
                            raise SkipComponent("skip %d" % k)
                        if outcome == "content":
                            raise ContentException("content %d" % k)
                        raise ValueError("crash %d" % k)
                    body.__name__ = "%s_body%d" % (tag, k)
                    body.__module__ = G.MODNAME
                    return body
                if outcome.startswith("file:"):
                    rel = "present.txt" if outcome == "file:present" else "missing.txt"
                    sf = simple_file(rel, context=CTX[binding])
                    orig_call = sf.__class__.__call__

                    class logged_simple_file(simple_file):
                        def __call__(self, broker, _k=k):
                            log.append(_k)
                            return simple_file.__call__(self, broker)
                    # the instance was registered under its own identity; re-class it so the body logs
                    sf.__class__ = logged_simple_file
                    ds = sf
                elif binding in ("A", "B"):
                    ds = datasource(CTX[binding])(make_body())
                elif binding == "AB":
                    ds = datasource([HostContext, HostArchiveContext])(make_body())
                elif binding == "free":
                    ds = datasource()(make_body())
                else:
                    c = CTX[binding[-1]]

                    def helper(broker, _k=k):
                        return "helper-%d" % _k
                    helper.__name__ = "%s_helper%d" % (tag, k)
                    helper.__module__ = G.MODNAME
                    datasource(c)(helper)
                    created.append(helper)
                    ds = datasource(helper)(make_body())
                created.append(ds)
                impl_objs.append(ds)
                is_last = (k == len(impls) - 1)
                if layout == "deeper-last" and is_last and k > 0:
                    # a subclass of an implementation class: by design NOT wired to the registry point
                    cls = SpecSetMeta("%s_Deep%d" % (tag, k), (classes[-1],), {"point": ds, "__module__": G.MODNAME})
                    wired.append(False)
                else:
                    dct = {"point": ds, "__module__": G.MODNAME}
                    if layout == "two-points" and k == 0:
                        def obody(broker):
                            log.append("other")
                            return "other-value"
                        obody.__name__ = tag + "_obody"
                        obody.__module__ = G.MODNAME
                        ods = datasource(CTX[active])(obody)
                        created.append(ods)
                        dct["other"] = ods
                    parent_cls = Base
                    if layout == "layered":
                        # a spec set that re-declares the registry point under the same name (the re-declared point is
                        # itself wired onto the parent's point); implementations are registered against either level
                        if k == case.get("layer_at", 0) and not layer:
                            lp = RegistryPoint(**flags)
                            created.append(lp)
                            layer.append(SpecSetMeta(tag + "_Layer", (Base,), {"point": lp, "__module__": G.MODNAME}))
                            classes.append(layer[0])
                        if case["levels"][k] == "layer" and layer:
                            parent_cls = layer[0]
                    cls = SpecSetMeta("%s_Impl%d" % (tag, k), (parent_cls,), dct)
                    wired.append(True)
                classes.append(cls)

            def same(a, b):
                return type(a) is type(b) and a == b     # 0 is not False is not None

            def judge(m):
                """evaluate the registry as it stands after the first m registrations and compare with the reference"""
                vio_ = []
                del log[:]
                del got[:]
                # ---- reference resolution -------------------------------------------------------------
                cand = [k for k, (b, o) in enumerate(impls[:m]) if wired[k] and active in ctx_set(b)]
                handler = cand[-1] if cand else None

                def yields(k):
                    o = impls[k][1]
                    return o in ("value", "zero", "file:present")
                exp_present = handler is not None and yields(handler)
                # Context-free implementations are only loosely covered by the statement ("declared for the
                # execution context that is active"): with one among the candidates the check demands only
                # that a yielding handler's value is the one supplied (weaker reading, never an alarm on the
                # fall-back / execution behaviour the ignore mechanism cannot provide for them).
                free_involved = any(impls[k][0] == "free" for k in cand)
                # ---- evaluate ---------------------------------------------------------------------------
                broker = dr.Broker()
                broker[CTX[active]] = CTX[active](root=root) if active == "A" else CTX[active](root=root)
                graph = dr.get_dependency_graph(consumer)
                if other is not None:
                    graph.update(dr.get_dependency_graph(other))
                for k, ds in enumerate(impl_objs[:m]):
                    if not wired[k]:
                        graph.update(dr.get_dependency_graph(ds))    # the unwired datasource is evaluated too, on its own
                try:
                    dr.run(graph, broker)
                except Exception as ex:
                    return [("run:raises", "dr.run returns", repr(ex), {})]

                def val(v):
                    if hasattr(v, "content"):
                        try:
                            return ["provider", list(v.content)]
                        except Exception as ex:
                            return ["provider-unreadable", type(ex).__name__]
                    return v
                exp_val = None
                if exp_present:
                    exp_val = (["provider", ["line1", "line2"]] if impls[handler][1] == "file:present" else
                               0 if impls[handler][1] == "zero" else "value-%d" % handler)
                feats = {"layout": layout}
                if exp_present:
                    if point not in broker:
                        vio_.append(("resolution:handler-value-supplied", {"handler": handler, "value": exp_val}, {"absent": True}, feats))
                    elif not same(val(broker[point]), exp_val):
                        vio_.append(("resolution:handler-value-supplied", {"handler": handler, "value": exp_val}, {"value": val(broker[point])}, feats))
                    if len(got) != 1 or not same(val(got[0]), exp_val):
                        vio_.append(("resolution:parser-receives-handler-value", [exp_val], [val(g) for g in got], feats))
                elif not free_involved:
                    if point in broker:
                        vio_.append(("resolution:absent-when-handler-yields-nothing", {"handler": handler, "absent": True},
                                    {"value": val(broker[point])}, feats))
                    if got:
                        vio_.append(("resolution:parser-not-fed", [], [val(g) for g in got], feats))
                # executed implementation bodies (wired ones)
                ran = [k for k in log if k != "other"]
                for k, (b, o) in enumerate(impls[:m]):
                    if not wired[k]:
                        continue
                    n = ran.count(k)
                    if free_involved:
                        if n > 1:
                            vio_.append(("execution:handler-runs-once", {"impl": k, "runs": "<=1"}, {"impl": k, "runs": n}, feats))
                    elif k == handler:
                        if n != 1:
                            vio_.append(("execution:handler-runs-once", {"impl": k, "runs": 1}, {"impl": k, "runs": n}, feats))
                    elif active in ctx_set(b):
                        if n != 0:
                            vio_.append(("execution:overridden-implementation-not-run", {"impl": k, "runs": 0}, {"impl": k, "runs": n}, feats))
                    else:
                        if n != 0:
                            vio_.append(("execution:other-context-implementation-not-run", {"impl": k, "runs": 0}, {"impl": k, "runs": n}, feats))
                # flags copied onto every wired implementation
                for k, ds in enumerate(impl_objs[:m]):
                    if not wired[k]:
                        continue
                    d = dr.get_delegate(ds)
                    for f, v in flags.items():
                        if f == "raw" and impls[k][1].startswith("file:"):
                            pass
                        if getattr(d, f, None) != v or getattr(ds, f, None) != v:
                            vio_.append(("flags:copied-to-implementation", {"impl": k, f: v},
                                        {"impl": k, "delegate": getattr(d, f, None), "component": getattr(ds, f, None)}, feats))
                # second registry point is independent
                if other is not None:
                    if broker.get(other) != "other-value" or log.count("other") != 1:
                        vio_.append(("resolution:points-independent", {"other": "other-value", "runs": 1},
                                    {"other": val(broker.get(other)), "runs": log.count("other")}, feats))
                case["_outcome"] = "handler=%s:%s:bodies-run=%d" % (handler, "value" if exp_present else "absent", len(ran))
                return vio_
            every = case.get("steps") == "every-prefix"
            for k in range(len(impls)):
                register(k)
                if every or k == len(impls) - 1:
                    for v in judge(k + 1):
                        vio.append((v[0], v[1], v[2], dict(v[3], after_registrations=k + 1) if every else v[3]))
            return vio
        finally:
            G.cleanup_components(created)
            for ctx in (HostContext, HostArchiveContext):
                s = dr.DEPENDENTS.get(ctx)
                if s is not None:
                    s.difference_update(created)


LAYERED_ALPHA = [(b, o) for b in ("A", "B", "AB") for o in ("value", "skip")]


def run_layered(unit, res):
    n = unit["n"]
    for impls in itertools.product(LAYERED_ALPHA, repeat=n):
        for levels in itertools.product(("base", "layer"), repeat=n):
            if "layer" not in levels or any(lv == "layer" and k < unit["layer_at"] for k, lv in enumerate(levels)):
                continue                      # an implementation cannot be registered against a level that does not exist yet
            for active, steps in itertools.product(("A", "B"), ("final", "every-prefix")):
                if steps == "every-prefix" and n < 2:
                    continue
                case = {"impls": [list(x) for x in impls], "layout": "layered", "active": active, "levels": list(levels),
                        "layer_at": unit["layer_at"]}
                if steps == "every-prefix":
                    case["steps"] = steps
                try:
                    vio = check_case(case)
                except Exception:
                    import traceback
                    vio = [("harness:raises", "no exception", traceback.format_exc()[-900:], {})]
                declared = sum(1 for (b, o) in impls if active in ctx_set(b))
                oc = case.pop("_outcome", "?")
                res.case(nontrivial=declared >= 2 and len(set(levels)) == 2,
                         outcome="layered|" + (",".join(sorted(set(v[0] for v in vio))) or "ok") + "|" + oc,
                         sample=case if res.evals % 900 == 5 else None)
                res.transitions += n
                res.traces += 1
                for v in vio:
                    res.violation(v[0], case, v[1], v[2], v[3])
    res.maxi("max_history_length", n)
    return res


def check_body_case(case):
    """case = {"layout": "same-body", "impls": [[binding, outcome] x n earlier implementations, one class each],
               "helper_name": "aux"|"zaux", "helper_ctx": "A"|"B", "helper_where": "same-body"|"earlier-class",
               "last_outcome": "value"|"skip", "active": "A"|"B"}
    The LAST implementation of `point` is `datasource(Base.<helper_name>)`: it is declared for the contexts of the
    implementations registered on that other registry point - here exactly one, defined BEFORE it (in the same class
    body, in definition order, or in an earlier class)."""
    from insights.core import dr, plugins
    from insights.core.context import HostContext, HostArchiveContext
    from insights.core.exceptions import SkipComponent
    from insights.core.spec_factory import RegistryPoint, SpecSet, SpecSetMeta
    from insights.core.plugins import datasource
    from harness import graphs as G
    from harness.tmp import scratch

    CTX = {"A": HostContext, "B": HostArchiveContext}
    _counter[0] += 1
    tag = "c05b_%d" % _counter[0]
    active, hname, hctx = case["active"], case["helper_name"], case["helper_ctx"]
    impls = [tuple(x) for x in case["impls"]] + [("via-point:" + hctx, case["last_outcome"])]
    log, got, created = [], [], []
    with scratch("c05") as root:
        try:
            point, hpoint = RegistryPoint(), RegistryPoint()
            created += [point, hpoint]
            Base = SpecSetMeta(tag + "_Base", (SpecSet,), {"point": point, hname: hpoint, "__module__": G.MODNAME})

            def consumer(v):
                got.append(v)
                return ("parsed", v)
            consumer.__name__ = tag + "_consumer"
            consumer.__module__ = G.MODNAME
            plugins.parser(point)(consumer)
            created.append(consumer)

            def make_body(k, outcome):
                def body(broker):
                    log.append(k)
                    if outcome == "value":
                        return "value-%d" % k
                    raise SkipComponent("skip %d" % k)
                body.__name__ = "%s_body%d" % (tag, k)
                body.__module__ = G.MODNAME
                return body
            for k, (b, o) in enumerate(impls[:-1]):
                deco = datasource([HostContext, HostArchiveContext]) if b == "AB" else datasource(CTX[b])
                ds = deco(make_body(k, o))
                created.append(ds)
                SpecSetMeta("%s_Impl%d" % (tag, k), (Base,), {"point": ds, "__module__": G.MODNAME})

            def hbody(broker):
                log.append("helper")
                return "helper-value"
            hbody.__name__ = tag + "_hbody"
            hbody.__module__ = G.MODNAME
            hds = datasource(CTX[hctx])(hbody)
            created.append(hds)
            last = len(impls) - 1
            if case["helper_where"] == "earlier-class":
                SpecSetMeta(tag + "_HelperImpl", (Base,), {hname: hds, "__module__": G.MODNAME})
            lds = datasource(getattr(Base, hname))(make_body(last, case["last_outcome"]))
            created.append(lds)
            body = {"__module__": G.MODNAME}
            if case["helper_where"] == "same-body":
                body[hname] = hds                      # definition order: the helper's implementation stands first
            body["point"] = lds
            SpecSetMeta("%s_Impl%d" % (tag, last), (Base,), body)

            def cset(b):
                return {"A": {"A"}, "B": {"B"}, "AB": {"A", "B"}}.get(b) or {b[-1]}
            cand = [k for k, (b, o) in enumerate(impls) if active in cset(b)]
            handler = cand[-1] if cand else None
            exp_present = handler is not None and impls[handler][1] == "value"
            broker = dr.Broker()
            broker[CTX[active]] = CTX[active](root=root)
            graph = dr.get_dependency_graph(consumer)
            try:
                dr.run(graph, broker)
            except Exception as ex:
                return [("run:raises", "dr.run returns", repr(ex), {})]
            vio = []
            feats = {"layout": "same-body", "helper_name": hname, "helper_where": case["helper_where"]}
            if exp_present:
                ev = "value-%d" % handler
                if point not in broker or broker[point] != ev:
                    vio.append(("resolution:handler-value-supplied", {"handler": handler, "value": ev},
                                {"value": broker.get(point), "present": point in broker}, feats))
                if got != [ev]:
                    vio.append(("resolution:parser-receives-handler-value", [ev], list(got), feats))
            else:
                if point in broker:
                    vio.append(("resolution:absent-when-handler-yields-nothing", {"handler": handler, "absent": True},
                                {"value": broker[point]}, feats))
                if got:
                    vio.append(("resolution:parser-not-fed", [], list(got), feats))
            for k, (b, o) in enumerate(impls):
                n = log.count(k)
                if k == handler:
                    if n != 1:
                        vio.append(("execution:handler-runs-once", {"impl": k, "runs": 1}, {"impl": k, "runs": n}, feats))
                elif n != 0:
                    vio.append(("execution:overridden-implementation-not-run" if active in cset(b) else
                                "execution:other-context-implementation-not-run", {"impl": k, "runs": 0}, {"impl": k, "runs": n}, feats))
            exp_h = 1 if active == hctx else 0
            if log.count("helper") != exp_h:
                vio.append(("execution:helper-point-implementation-runs-under-its-context", {"runs": exp_h},
                            {"runs": log.count("helper")}, feats))
            case["_outcome"] = "handler=%s:%s:bodies-run=%d" % (handler, "value" if exp_present else "absent", len(log))
            return vio
        finally:
            G.cleanup_components(created)
            for ctx in (HostContext, HostArchiveContext):
                s = dr.DEPENDENTS.get(ctx)
                if s is not None:
                    s.difference_update(created)


def run_same_body(unit, res):
    n = unit["n"]
    for impls in itertools.product(LAYERED_ALPHA, repeat=n):
        for hctx, where, lo, active in itertools.product(("A", "B"), ("same-body", "earlier-class"), ("value", "skip"), ("A", "B")):
            case = {"layout": "same-body", "impls": [list(x) for x in impls], "helper_name": unit["helper_name"], "helper_ctx": hctx,
                    "helper_where": where, "last_outcome": lo, "active": active}
            try:
                vio = check_body_case(case)
            except Exception:
                import traceback
                vio = [("harness:raises", "no exception", traceback.format_exc()[-900:], {})]
            declared = sum(1 for (b, o) in impls if active in ctx_set(b)) + (1 if hctx == active else 0)
            oc = case.pop("_outcome", "?")
            res.case(nontrivial=declared >= 2 and hctx == active,
                     outcome="same-body|" + (",".join(sorted(set(v[0] for v in vio))) or "ok") + "|" + oc,
                     sample=case if res.evals % 300 == 5 else None)
            res.transitions += n + 2
            res.traces += 1
            for v in vio:
                res.violation(v[0], case, v[1], v[2], v[3])
    res.maxi("max_history_length", n + 1)
    return res


# ================================================================================================================
# Histories over SEVERAL specs whose implementations are bound to each other ("or to other datasources" of the
# quantifier): an implementation may be bound to a context, to ANOTHER REGISTRY POINT (it is then declared for every
# context that point has an implementation for), directly to an EARLIER IMPLEMENTATION (of the same or of another spec)
# or to a helper datasource bound to such an implementation.
# ================================================================================================================
_CS = {"A": {"A"}, "B": {"B"}, "AB": {"A", "B"}}
MULTI_SPECS = ("a", "b", "c")


def multi_reference(steps, active):
    """steps = [[spec, dep, outcome], ...] in registration order, dep in A | B | AB | point:<spec> | impl:<j> | via:<j>.
    Reference derived from the statement plus the one dr rule 'a component runs only if its dependency is there':
      declared(k)   <=> the active context is among the contexts reachable through k's binding;
      handler(s)     =  the last registered implementation of s that is declared for the active context;
      overridden(k) <=> a later implementation of the same spec is declared for the active context -> NOT executed at all;
      runs(k)       <=> not overridden(k) and its binding is available (context active / bound point present / bound
                        implementation yielded);   yields(k) <=> runs(k) and its outcome is a value;
      present(s)    <=> handler(s) yields  (never filled from an implementation the handler overrides).
    Weaker reading where the statement is silent: an implementation bound to a registry point that gains the active
    context only AFTER that implementation was registered ("declared for" then or now?) makes the case `ambiguous`
    when its spec has further implementations - nothing but 'dr.run returns' is demanded of such a case."""
    n = len(steps)

    def ctx(k, m, seen=()):
        if k in seen:
            raise ValueError("cyclic binding in case descriptor")
        dep = steps[k][1]
        if dep in _CS:
            return set(_CS[dep])
        kind, _, arg = dep.partition(":")
        if kind == "point":
            out = set()
            for j in range(m):
                if steps[j][0] == arg:
                    out |= ctx(j, m, seen + (k,))
            return out
        if int(arg) >= k:
            raise ValueError("binding to a later implementation in case descriptor")
        return ctx(int(arg), m, seen + (k,))
    ctx_reg = [ctx(k, k) for k in range(n)]
    ctx_end = [ctx(k, n) for k in range(n)]
    count = {}
    for s, _, _ in steps:
        count[s] = count.get(s, 0) + 1
    ambiguous = any(count[steps[k][0]] >= 2 and active in ctx_end[k] - ctx_reg[k] for k in range(n))
    declared = [active in ctx_end[k] for k in range(n)]
    overridden = [any(steps[j][0] == steps[k][0] and declared[j] for j in range(k + 1, n)) for k in range(n)]
    handler = {}
    for k in range(n):
        if declared[k]:
            handler[steps[k][0]] = k
    memo = {}

    def runs(k):
        if k not in memo:
            dep = steps[k][1]
            if overridden[k]:
                memo[k] = False
            elif dep in _CS:
                memo[k] = active in _CS[dep]
            elif dep.startswith("point:"):
                h = handler.get(dep[6:])
                memo[k] = h is not None and yields(h)
            else:
                memo[k] = yields(int(dep.partition(":")[2]))
        return memo[k]

    def yields(k):
        return runs(k) and steps[k][2] == "value"
    runs_ = [runs(k) for k in range(n)]
    # second formulation (cross-check of the model): only a handler can ever run
    for k in range(n):
        if runs_[k] and handler.get(steps[k][0]) != k:
            raise AssertionError("reference model inconsistent: non-handler %d runs" % k)
        if runs_[k] and not declared[k]:
            raise AssertionError("reference model inconsistent: undeclared %d runs" % k)
    present = {s: (s in handler and yields(handler[s])) for s in MULTI_SPECS}
    return {"ambiguous": ambiguous, "declared": declared, "overridden": overridden, "handler": handler, "runs": runs_,
            "present": present}


def check_multi_case(case):
    """case = {"layout": "multi-point", "steps": [[spec, dep, outcome], ...], "active": "A"|"B"}; one class per step."""
    from insights.core import dr, plugins
    from insights.core.context import HostContext, HostArchiveContext
    from insights.core.exceptions import SkipComponent
    from insights.core.spec_factory import RegistryPoint, SpecSet, SpecSetMeta
    from insights.core.plugins import datasource
    from harness import graphs as G
    from harness.tmp import scratch

    CTX = {"A": HostContext, "B": HostArchiveContext}
    _counter[0] += 1
    tag = "c05m_%d" % _counter[0]
    steps, active = [list(s) for s in case["steps"]], case["active"]
    ref = multi_reference(steps, active)
    log, created = [], []
    got = dict((s, []) for s in MULTI_SPECS)
    with scratch("c05") as root:
        try:
            points = dict((s, RegistryPoint()) for s in MULTI_SPECS)
            created += list(points.values())
            Base = SpecSetMeta(tag + "_Base", (SpecSet,), dict(points, __module__=G.MODNAME))
            consumers = []
            for s in MULTI_SPECS:
                def consumer(v, _s=s):
                    got[_s].append(v)
                    return ("parsed", v)
                consumer.__name__ = "%s_consumer_%s" % (tag, s)
                consumer.__module__ = G.MODNAME
                plugins.parser(points[s])(consumer)
                created.append(consumer)
                consumers.append(consumer)
            impl_objs = []
            for k, (s, dep, outcome) in enumerate(steps):
                def body(broker, _k=k, _o=outcome):
                    log.append(_k)
                    if _o == "value":
                        return "value-%d" % _k
                    raise SkipComponent("skip %d" % _k)
                body.__name__ = "%s_body%d" % (tag, k)
                body.__module__ = G.MODNAME
                if dep in ("A", "B"):
                    on = CTX[dep]
                elif dep == "AB":
                    on = [HostContext, HostArchiveContext]
                elif dep.startswith("point:"):
                    on = getattr(Base, dep[6:])
                elif dep.startswith("impl:"):
                    on = impl_objs[int(dep[5:])]
                else:
                    def helper(broker, _k=k):
                        log.append("helper-%d" % _k)
                        return "helper-%d" % _k
                    helper.__name__ = "%s_helper%d" % (tag, k)
                    helper.__module__ = G.MODNAME
                    on = datasource(impl_objs[int(dep[4:])])(helper)
                    created.append(on)
                ds = datasource(on)(body)
                created.append(ds)
                impl_objs.append(ds)
                SpecSetMeta("%s_Impl%d" % (tag, k), (Base,), {s: ds, "__module__": G.MODNAME})
            broker = dr.Broker()
            broker[CTX[active]] = CTX[active](root=root)
            graph = {}
            for c in consumers:
                graph.update(dr.get_dependency_graph(c))
            try:
                dr.run(graph, broker)
            except Exception as ex:
                return [("run:raises", "dr.run returns", repr(ex), {})]
            vio = []
            feats = {"layout": "multi-point", "bindings": sorted(set(d.partition(":")[0] for _, d, _ in steps))}
            case["_outcome"] = "ambiguous" if ref["ambiguous"] else "present=%s:bodies-run=%d" % (
                "".join(s for s in MULTI_SPECS if ref["present"][s]) or "-", sum(ref["runs"]))
            if ref["ambiguous"]:
                return vio
            for s in MULTI_SPECS:
                h = ref["handler"].get(s)
                own = "value-%d" % h if h is not None and steps[h][2] == "value" else None
                if own is not None and not ref["present"][s]:
                    # the handler would yield, but by the reference its own binding is unavailable (e.g. it is built on the
                    # implementation it overrides, which is not executed): the statement only excludes that the spec is
                    # filled from ANOTHER implementation - absent, or the handler's own value, are both accepted
                    if points[s] in broker and broker[points[s]] != own:
                        vio.append(("resolution:absent-when-handler-yields-nothing", {"spec": s, "handler": h, "absent_or": own},
                                    {"value": broker[points[s]]}, feats))
                    if got[s] not in ([], [own]):
                        vio.append(("resolution:parser-not-fed", {"spec": s, "fed": [], "or": [own]}, {"spec": s, "fed": list(got[s])}, feats))
                elif ref["present"][s]:
                    ev = "value-%d" % h
                    if points[s] not in broker or broker[points[s]] != ev:
                        vio.append(("resolution:handler-value-supplied", {"spec": s, "handler": h, "value": ev},
                                    {"value": broker.get(points[s]), "present": points[s] in broker}, feats))
                    if got[s] != [ev]:
                        vio.append(("resolution:parser-receives-handler-value", {"spec": s, "fed": [ev]}, {"spec": s, "fed": list(got[s])}, feats))
                else:
                    if points[s] in broker:
                        vio.append(("resolution:absent-when-handler-yields-nothing", {"spec": s, "handler": h, "absent": True},
                                    {"value": broker[points[s]]}, feats))
                    if got[s]:
                        vio.append(("resolution:parser-not-fed", {"spec": s, "fed": []}, {"spec": s, "fed": list(got[s])}, feats))
            for k in range(len(steps)):
                n = log.count(k)
                if ref["runs"][k]:
                    if n != 1:
                        vio.append(("execution:handler-runs-once", {"impl": k, "runs": 1}, {"impl": k, "runs": n}, feats))
                elif ref["overridden"][k]:
                    if n != 0:
                        vio.append(("execution:overridden-implementation-not-run", {"impl": k, "runs": 0}, {"impl": k, "runs": n}, feats))
                elif not ref["declared"][k]:
                    if n != 0:
                        vio.append(("execution:other-context-implementation-not-run", {"impl": k, "runs": 0}, {"impl": k, "runs": n}, feats))
                # a handler whose own binding is unavailable: nothing is claimed about its execution (dr semantics, not C05)
            return vio
        finally:
            G.cleanup_components(created)
            for ctx in (HostContext, HostArchiveContext):
                s = dr.DEPENDENTS.get(ctx)
                if s is not None:
                    s.difference_update(created)


def multi_histories(family, tier):
    """Two exhaustive families of multi-spec histories (each a list of [spec, dep, outcome]):
    point-growth  - a registry point `b` gains context implementations over time while implementations of `a` (bound to a
                    context or to the point b) and one observing spec `c` (bound to the point a or b) are registered in
                    between: every interleaving of <= NB b-steps, 1..NA a-steps and <= 1 c-step;
    built-on-top  - implementations of ONE spec of which later ones may be bound directly, or through a helper datasource,
                    to an earlier implementation of the same spec."""
    thorough = tier == "thorough"
    if family == "point-growth":
        nb_max, na_max, n_max = (2, 3, 5) if thorough else (2, 2, 5)
        b_opts = [["b", d, o] for d in ("A", "B") for o in (("value", "skip") if thorough else ("value",))]
        c_opts = [["c", "point:a", "value"], ["c", "point:b", "value"]]

        def a_opts(is_last):
            # quick: only the LAST implementation of `a` varies its outcome (the earlier ones yield - they are what a
            # wrong fall-back would expose); thorough: every outcome
            outs = ("value", "skip") if (is_last or thorough) else ("value",)
            return [["a", d, o] for d in ("A", "B", "point:b") for o in outs]
        for nb in range(0, nb_max + 1):
            for na in range(1, na_max + 1):
                for nc in (0, 1):
                    if nb + na + nc > n_max:
                        continue
                    for order in sorted(set(itertools.permutations("b" * nb + "a" * na + "c" * nc))):
                        pools, seen_a = [], 0
                        for s in order:
                            if s == "a":
                                seen_a += 1
                                pools.append(a_opts(seen_a == na))
                            else:
                                pools.append(b_opts if s == "b" else c_opts)
                        for steps in itertools.product(*pools):
                            if not thorough and len(set(x[1] for x in steps if x[0] == "b")) < nb:
                                continue      # quick: the point b gains DISTINCT contexts (overrides within b: main part)
                            yield [list(x) for x in steps]
    else:
        n_max = 4 if thorough else 3
        for n in range(2, n_max + 1):
            pools = []
            for k in range(n):
                deps = ["A", "B", "AB"] + ["impl:%d" % j for j in range(k)] + ["via:%d" % j for j in range(k)]
                pools.append([["a", d, o] for d in deps for o in ("value", "skip")])
            for steps in itertools.product(*pools):
                if any(":" in s[1] for s in steps):           # context-only histories are the main part's business
                    yield [list(x) for x in steps]


MULTI_SHARDS = 8


def run_multi(unit, tier, res):
    longest = 0
    for i, steps in enumerate(multi_histories(unit["family"], tier)):
        if i % MULTI_SHARDS != unit["shard"]:
            continue
        longest = max(longest, len(steps))
        for active in ("A", "B"):
            case = {"layout": "multi-point", "steps": steps, "active": active}
            try:
                vio = check_multi_case(case)
                ref = multi_reference(steps, active)
                # measured: an override really happens in a history that contains a binding to a point / an implementation
                nontrivial = (not ref["ambiguous"]) and any(ref["overridden"]) and any(":" in s[1] for s in steps)
            except Exception:
                import traceback
                vio = [("harness:raises", "no exception", traceback.format_exc()[-900:], {})]
                nontrivial = False
            oc = case.pop("_outcome", "?")
            res.case(nontrivial=nontrivial, outcome="multi-point|" + (",".join(sorted(set(v[0] for v in vio))) or "ok") + "|" + oc,
                     sample=case if res.evals % 400 == 5 else None)
            res.transitions += len(steps)
            res.traces += 1
            for v in vio:
                res.violation(v[0], case, v[1], v[2], v[3])
    res.maxi("max_history_length", longest)
    return res


def run_unit(unit, tier):
    res = Result()
    if unit["layout"] == "layered":
        return run_layered(unit, res)
    if unit["layout"] == "same-body":
        return run_same_body(unit, res)
    if unit["layout"] == "multi-point":
        return run_multi(unit, tier, res)
    alpha = impl_alphabet()
    n = unit["n"]
    fixed = [alpha[unit["first"]]]
    if "second" in unit:
        fixed.append(alpha[unit["second"]])
    rest = n - len(fixed)
    prefixes = set()
    for tail in itertools.product(alpha, repeat=rest):
        impls = [list(x) for x in fixed + list(tail)]
        for k in range(1, len(impls) + 1):
            prefixes.add(tuple(map(tuple, impls[:k])))
        for active, steps in itertools.product(("A", "B"), ("final", "every-prefix")):
            case = {"impls": impls, "layout": unit["layout"], "active": active}
            if steps == "every-prefix":
                # history in ONE process: evaluate after every registration (an evaluation must not influence
                # what a later registration resolves to, and every prefix state is judged on the same objects)
                if len(impls) < 2 or len(impls) > 3 or unit["layout"] == "deeper-last":
                    continue
                case["steps"] = steps
            try:
                vio = check_case(case)
            except Exception:
                import traceback
                vio = [("harness:raises", "no exception", traceback.format_exc()[-900:], {})]
            declared = sum(1 for (b, o) in impls if active in ctx_set(b))
            oc = case.pop("_outcome", "?")
            res.case(nontrivial=declared >= 2, outcome=(",".join(sorted(set(v[0] for v in vio))) or "ok") + "|" + oc,
                     sample=case if res.evals % 700 == 3 else None)
            res.transitions += len(impls)
            res.traces += 1
            for v in vio:
                res.violation(v[0], case, v[1], v[2], v[3])
    res.states += len(prefixes) if "second" in unit or n < 3 else len(prefixes)
    res.maxi("max_history_length", n)
    return res


def replay(case):
    if case.get("layout") == "multi-point":
        return [{"clause": v[0], "case": case, "expected": v[1], "observed": v[2], "features": v[3]} for v in check_multi_case(case)]
    if case.get("layout") == "same-body":
        return [{"clause": v[0], "case": case, "expected": v[1], "observed": v[2], "features": v[3]} for v in check_body_case(case)]
    return [{"clause": v[0], "case": case, "expected": v[1], "observed": v[2], "features": v[3]} for v in check_case(case)]
