"""C17 - client identity and registration markers stay coherent over any history.

Explicit-state breadth-first search in which the transition function is the real code of
insights/client/utilities.py acting on a REAL directory tree under /dev/shm:

    <root>/etc1/   first configuration directory  (machine-id, .registered, .unregistered) - may be absent
    <root>/etc2/   second (legacy) configuration directory (.registered, .unregistered)    - may be absent
    <root>/tg/     where planted symlinks point to (t = existing file, nope = missing, idt / idnope likewise
                   for a symlink planted at the machine-id location)

`constants.registered_files / unregistered_files` are pointed into the tree, the identifier file is
passed as `destination_file`, `uuid.uuid4` is a counter at the seam `insights.client.utilities.uuid`
and `_get_rhsm_identity` answers what the event says.

A state is the complete content of the tree (every entry: absent | regular file + content | symlink +
target, read back by scanning the directories after every event) plus the identifier returned last.
States are de-duplicated on a canonical form (see `canon`), every (state, event) pair is executed
exactly once, the search runs until no new canonical state appears (closure).  Every violation is
reported with the shortest event trace from an initial state and is re-executed from scratch on a
fresh directory (no snapshots, no restore) before it is recorded.
"""
import collections
import os
import random
import re
import shutil
import stat
import types
import uuid as _uuid

from mc.result import Result
from harness import tmp

ID = "C17"
LEVEL = "model_checking"
RULE = ("explicit-state BFS to closure over the real directory tree: one case = one (canonical state, event) pair, "
        "executed once by restoring the state's tree and calling the real function; states are de-duplicated on "
        "(directory presence, kind/content-class of every entry, relation of the stored identifier to the last "
        "returned one, whether the last returned one is the subscription identity); units split the state space along components no event can leave (which configuration "
        "directories exist, whether machine-id is a symlink) so the per-unit state counts add up to the number of "
        "distinct states (states reached outside a unit's component are counted in counters.states_outside_unit_component, "
        "0 on the unchanged tree); a case is non-trivial when the event changed the tree or returned an identifier")
ASSUMPTIONS = [
    "identifier VALUES are abstracted to (spelling class, equal to the last returned id or not, last returned id is the "
    "subscription identity or not): the code under test "
    "never compares or branches on an identifier's value beyond 'parses as a UUID' (argument in canon())",
    "marker / symlink-target file CONTENT is abstracted to empty / non-empty: the code never reads these files",
    "uuid4 is a counter patched at insights.client.utilities.uuid; the subscription identity is an enumerated "
    "environment answer in {none, a fixed v4 UUID} per call; the clock only feeds marker content (abstracted)",
    "the environment moves only at the stated places: symlinks are planted at vacant marker locations; nobody else "
    "deletes or edits the identifier file between client runs",
    "the tree lives on tmpfs (/dev/shm); files are aged to a fixed old mtime before every event so that any rewrite "
    "is visible in mtime_ns",
]

UA = "11111111-2222-4333-8444-555555555555"       # pre-existing identifier (v4)
UB = "bbbbbbbb-bbbb-4bbb-8bbb-bbbbbbbbbbbb"       # subscription identity answer (v4)
UNV4 = "11111111-2222-1333-c444-555555555555"     # parses as a UUID, not version 4
CANON_RE = re.compile(r"^[0-9a-f]{8}-[0-9a-f]{4}-[0-9a-f]{4}-[0-9a-f]{4}-[0-9a-f]{12}$")
# what the oracle calls an existing VALID identifier file: anything that parses as a UUID - hyphenated or the legacy
# un-hyphenated form (the property's quantifier names it), any letter case, optional surrounding white space.
# "An existing identifier file is never rewritten by a read": nothing is demanded for empty or unparsable files,
# which a read may legitimately replace or reject. (First version exempted legacy files too; a seeded change that
# rewrites them on read showed that exemption was weaker than the statement.)
VALID_RE = re.compile(r"^\s*[0-9a-fA-F]{8}-?[0-9a-fA-F]{4}-?[0-9a-fA-F]{4}-?[0-9a-fA-F]{4}-?[0-9a-fA-F]{12}\s*$")
OLD_NS = 1000000000 * 10 ** 9                      # 2001-09-09: every file is aged to this before an event

MID = "etc1/machine-id"
REG = ["etc1/.registered", "etc2/.registered"]
UNREG = ["etc1/.unregistered", "etc2/.unregistered"]
MARKERS = {"reg1": REG[0], "reg2": REG[1], "unreg1": UNREG[0], "unreg2": UNREG[1]}
T_OK, T_NO, T_ID, T_IDNO = "../tg/t", "../tg/nope", "../tg/idt", "../tg/idnope"

# machine-id initial kinds: name -> (entry at MID or None, content of tg/idt or None)
MID_KINDS = collections.OrderedDict([
    ("absent", (None, None)),
    ("A", (("f", UA), None)),
    ("legacy", (("f", UA.replace("-", "")), None)),
    ("empty", (("f", ""), None)),
    ("garbage", (("f", "not-a-uuid"), None)),
    ("link:A", (("l", T_ID), UA)),
    ("link:dangling", (("l", T_IDNO), None)),
    # thorough only from here
    ("A_nl", (("f", UA + "\n"), None)),
    ("upper", (("f", UA.upper()), None)),
    ("nonv4", (("f", UNV4), None)),
    ("ws", (("f", "\n"), None)),
    ("link:legacy", (("l", T_ID), UA.replace("-", ""))),
    ("link:empty", (("l", T_ID), "")),
])
QUICK_MID = ["absent", "A", "A_nl", "legacy", "empty", "garbage", "link:A", "link:dangling"]
MARKER_KINDS = {"absent": None, "file": ("f", "M"), "link": ("l", T_OK), "dangling": ("l", T_NO)}
MK_ORDER = ["absent", "file", "link", "dangling"]

ID_EVENTS = ["read:none", "read:B", "new:none", "new:B"]
MARKER_EVENTS = ["reg", "unreg", "delreg", "delunreg"]
PLANT_EVENTS = ["plant:%s:%s" % (m, t) for m in ("reg1", "unreg1", "reg2", "unreg2") for t in ("t", "x")]
EVENTS = ID_EVENTS + MARKER_EVENTS + PLANT_EVENTS

BOUNDS = {
    "quick": {"initial_states": "dir presence {11,10,01,00} x machine-id kinds %s x marker layouts {all absent, "
                                "all regular, all symlink->file, all dangling, registered file + unregistered symlink}"
                                % QUICK_MID,
              "events": EVENTS, "depth": "closure (unbounded)"},
    "thorough": {"initial_states": "dir presence {11,10,01,00} x machine-id kinds %s x every combination of "
                                   "{absent, file, symlink->file, dangling symlink} at the 4 marker locations"
                                   % list(MID_KINDS),
                 "events": EVENTS, "depth": "closure (unbounded)"},
}
CAP_S = {"quick": 120, "thorough": 1200}
MAX_STATES = 200000        # guard against a tree whose state space does not close (a capped unit reports exhaustive: false)


# ---- the seam ---------------------------------------------------------------------------------

class _Seam(object):
    """Points the code under test at a directory and owns uuid4 / rhsm. One per process."""

    def __init__(self):
        import insights.client.utilities as U
        from insights.client.constants import InsightsConstants as C
        self.U, self.C = U, C
        self.ctr = 0
        self.rhsm = None
        seam = self

        def uuid4():
            n = seam.ctr
            seam.ctr += 1
            return _uuid.UUID("c17c17c1-0000-4000-8000-%012x" % n)

        shim = types.ModuleType("uuid_c17_shim")
        shim.__dict__.update({k: v for k, v in _uuid.__dict__.items() if not k.startswith("__")})
        shim.uuid4 = uuid4
        U.uuid = shim                              # utilities.py calls uuid.uuid4() and uuid.UUID()
        U._get_rhsm_identity = lambda: seam.rhsm

    def point(self, root):
        self.C.registered_files = [os.path.join(root, p) for p in REG]
        self.C.unregistered_files = [os.path.join(root, p) for p in UNREG]


_SEAM = None


def seam():
    global _SEAM
    if _SEAM is None:
        _SEAM = _Seam()
    return _SEAM


# ---- the world: a real directory tree ------------------------------------------------------------

class World(object):
    def __init__(self, root, dirs):
        self.root = root
        self.dirs = tuple(int(bool(d)) for d in dirs)
        self.expected_top = ["tg"] + ["etc%d" % (i + 1) for i in (0, 1) if self.dirs[i]]
        for d in self.expected_top:
            os.mkdir(os.path.join(root, d))
        self.cur = {}
        seam().point(root)

    def p(self, rel):
        return os.path.join(self.root, rel)

    def snapshot(self):
        """Reads the whole tree back: rel path -> (kind, data, mtime_ns)."""
        ents = {}
        top = sorted(os.listdir(self.root))
        for name in top:
            if name not in self.expected_top:
                ents[name] = ("x", "", 0)          # something created outside the three directories
        for d in self.expected_top:
            dp = os.path.join(self.root, d)
            if not os.path.isdir(dp) or os.path.islink(dp):
                ents[d] = ("x", "", 0)
                continue
            with os.scandir(dp) as it:
                for e in it:
                    rel = d + "/" + e.name
                    st = e.stat(follow_symlinks=False)
                    if stat.S_ISLNK(st.st_mode):
                        ents[rel] = ("l", os.readlink(e.path), 0)
                    elif stat.S_ISREG(st.st_mode):
                        with open(e.path, "rb") as fh:
                            ents[rel] = ("f", fh.read().decode("latin-1"), st.st_mtime_ns)
                    else:
                        ents[rel] = ("x", "", 0)
        self.cur = ents
        return ents

    def _remove(self, rel):
        path = self.p(rel)
        if os.path.isdir(path) and not os.path.islink(path):
            shutil.rmtree(path)
        else:
            os.remove(path)
        if rel in self.expected_top:
            os.mkdir(path)

    def _create(self, rel, ent):
        path = self.p(rel)
        if ent[0] == "l":
            os.symlink(ent[1], path)
        elif ent[0] == "f":
            with open(path, "wb") as fh:
                fh.write(ent[1].encode("latin-1"))
            os.utime(path, ns=(OLD_NS, OLD_NS))
        else:
            raise ValueError("cannot create %r" % (ent,))

    def sync(self, target):
        """Makes the tree equal to `target` (a snapshot whose files all carry OLD_NS)."""
        cur = self.cur
        for rel in list(cur):
            ent = cur[rel]
            t = target.get(rel)
            if t == ent:
                continue
            if t is not None and ent[0] == "f" and t[0] == "f" and ent[1] == t[1]:
                os.utime(self.p(rel), ns=(OLD_NS, OLD_NS))
                continue
            self._remove(rel)
            del cur[rel]
        for rel, t in target.items():
            if rel not in cur:
                self._create(rel, t)
        self.cur = dict(target)

    def age(self):
        """Time passes between client runs: every regular file gets the fixed old mtime."""
        self.sync(aged(self.cur))


def aged(ents):
    return {rel: ((e[0], e[1], OLD_NS) if e[0] == "f" else e) for rel, e in ents.items()}


def initial_ents(init):
    """Initial-state descriptor -> snapshot. init = {"dirs": [d1, d2], "mid": kind, "reg": [k1, k2], "unreg": [k1, k2]}"""
    ents = {"tg/t": ("f", "TARGET", OLD_NS)}
    dirs = init["dirs"]
    if dirs[0]:
        ment, idt = MID_KINDS[init["mid"]]
        if ment is not None:
            ents[MID] = (ment[0], ment[1], OLD_NS if ment[0] == "f" else 0)
        if idt is not None:
            ents["tg/idt"] = ("f", idt, OLD_NS)
    elif init["mid"] != "absent":
        raise ValueError("machine-id kind %r needs the first directory" % init["mid"])
    for i in (0, 1):
        for paths, kinds in ((REG, init["reg"]), (UNREG, init["unreg"])):
            k = MARKER_KINDS[kinds[i]]
            if k is None:
                continue
            if not dirs[i]:
                raise ValueError("marker in an absent directory")
            ents[paths[i]] = (k[0], k[1], OLD_NS if k[0] == "f" else 0)
    return ents


def resolve(rel, ent):
    """Where the symlink `ent` planted at `rel` points to, as a path relative to the root."""
    return os.path.normpath(os.path.join(os.path.dirname(rel), ent[1]))


def id_file(ents):
    """The regular file the identifier location currently resolves to (one symlink hop), or None."""
    e = ents.get(MID)
    if e is None:
        return None
    if e[0] == "f":
        return MID
    if e[0] == "l":
        t = resolve(MID, e)
        te = ents.get(t)
        if te is not None and te[0] == "f":
            return t
    return None


# ---- canonical form ------------------------------------------------------------------------------

def id_class(content, last):
    """Everything generate_machine_id can observe about the stored identifier, with the VALUE replaced by
    its relation to the identifier returned last."""
    if content == "":
        return "empty"
    s = content.strip()
    try:
        raw = _uuid.UUID(s)
    except ValueError:
        return "blank" if s == "" else "unparsable"
    forced = str(_uuid.UUID(s, version=4))          # what the code under test returns for it
    if s == str(raw):
        form = "hyphenated"
    elif s == raw.hex:
        form = "legacy-hex"
    elif s == str(raw).upper():
        form = "HYPHENATED"
    else:
        form = "literal:" + s                       # unusual spelling: not abstracted at all
    return (form, content.replace(s, "<id>"), forced == str(raw), forced == last)


def canon(dirs, ents, last):
    """Canonical state.

    Why merged states have the same futures.  Two concrete states with the same canonical form differ only in
    (a) the VALUE of the identifier in the identifier file and of the identifier returned last, (b) the bytes of
    non-empty marker / symlink-target files, (c) mtimes, (d) the uuid4 counter.
    (a) utilities.py reads the identifier file, tests it for emptiness, strips it and hands it to uuid.UUID; it
    never compares an identifier with anything and never branches on its value.  What it can see is therefore
    the spelling class kept in id_class() (empty / blank / unparsable / hyphenated / legacy hex / upper case /
    surrounding white space / already version 4 or not); the oracle additionally compares the returned
    identifier with the previous one, which is the kept relation `forced == last`.  A renaming of identifier
    values that preserves the spelling class and that relation maps every future of one state onto a future of
    the other with identical observations.  Fresh identifiers come from a counter that is restored together with
    the state, so they differ from every identifier already present in either state.  The subscription identity
    is the one constant the environment can hand out again at any time (when no usable identifier file exists a
    read returns it), therefore `last == UB` is part of the key.  Unusual spellings are kept literally (no merging).
    (b) marker and target files are never opened for reading by the code; the oracle compares their bytes only
    before/after a single event.  (c) the code never looks at time stamps; the harness ages all files before each
    event.  (d) see (a).
    An unsound merge could at worst hide a state; it cannot produce a false alarm, because every violation is
    re-executed from its initial state on a fresh directory without snapshots before it is recorded."""
    idf = id_file(ents)
    items = []
    for rel in sorted(ents):
        k, data, _ = ents[rel]
        if k == "l":
            items.append((rel, "l", data))
        elif k == "f":
            if rel == idf:
                items.append((rel, "f", id_class(data, last)))
            else:
                items.append((rel, "f", "empty" if data == "" else "nonempty"))
        else:
            items.append((rel, k, ""))
    return (tuple(dirs), tuple(items), last is not None, last == UB)


def component(dirs, ents):
    """Part of the state no event can change on the unchanged tree: which directories exist and whether the
    identifier location is a symlink. Units are the components."""
    e = ents.get(MID)
    return (tuple(dirs), "link" if (e is not None and e[0] == "l") else "nolink")


# ---- events and oracle ---------------------------------------------------------------------------

def enabled(world, ev):
    if not ev.startswith("plant:"):
        return True
    name = ev.split(":")[1]
    return bool(world.dirs[int(name[-1]) - 1]) and MARKERS[name] not in world.cur


def apply_event(world, ev):
    """Calls the real function (or makes the environment move). Returns the observation."""
    s = seam()
    U = s.U
    parts = ev.split(":")
    if parts[0] == "plant":
        os.symlink(T_OK if parts[2] == "t" else T_NO, world.p(MARKERS[parts[1]]))
        return ("ok", None)
    if ev not in EVENTS:
        raise ValueError("unknown event %r" % ev)
    try:
        if parts[0] in ("read", "new"):
            s.rhsm = UB if parts[1] == "B" else None
            try:
                r = U.generate_machine_id(new=(parts[0] == "new"), destination_file=world.p(MID))
            except SystemExit as ex:
                return ("exit", ex.code)
            return ("id", r)
        if ev == "reg":
            U.write_registered_file()
        elif ev == "unreg":
            U.write_unregistered_file()
        elif ev == "delreg":
            U.delete_registered_file()
        elif ev == "delunreg":
            U.delete_unregistered_file()
    except Exception as ex:          # the real function raised: an observation, not a verdict
        return ("raised", type(ex).__name__)
    return ("ok", None)


def body(ent):
    return None if ent is None else (ent[0], ent[1])


def judge(ev, before, after, obs, last):
    """The oracle for one transition. Returns (violations [(clause, expected, observed, features)], new last id)."""
    out = []
    base = ev.split(":")[0]
    new_last = last
    if base in ("read", "new") and obs[0] == "id":
        r = obs[1]
        if not (isinstance(r, str) and CANON_RE.match(r)):
            out.append(("id:not-canonical-uuid", "8-4-4-4-12 lower-case hex", repr(r), {}))
        # weaker reading: an exit (unparsable file) is not a returned identifier and leaves `last` untouched
        if base == "read" and last is not None and r != last:
            out.append(("id:changed-without-regenerate", last, r, {}))
        new_last = r
    if base == "read":
        idf = id_file(before)
        if idf is not None and VALID_RE.match(before[idf][1]):
            if after.get(MID) != before.get(MID) or after.get(idf) != before.get(idf):
                same = body(after.get(idf)) == body(before.get(idf))
                out.append(("id:file-rewritten-by-read",
                            {"entry": list(before[idf])},
                            {"entry": list(after[idf]) if idf in after else None},
                            {"content_changed": not same}))
    if base in ("reg", "unreg"):
        for i in (0, 1):
            if REG[i] in after and UNREG[i] in after:
                out.append(("markers:both-present", "at most one marker in etc%d" % (i + 1),
                            {REG[i]: list(body(after[REG[i]])), UNREG[i]: list(body(after[UNREG[i]]))},
                            {"after": base}))
        written = REG if base == "reg" else UNREG
        for rel in REG + UNREG:
            b = before.get(rel)
            if b is None or b[0] != "l":
                continue
            t = resolve(rel, b)
            if body(before.get(t)) != body(after.get(t)):
                out.append(("markers:symlink-followed", {t: body(before.get(t))}, {t: body(after.get(t))},
                            {"dangling": t not in before, "link_at": "written" if rel in written else "deleted"}))
            if rel in written:
                a = after.get(rel)
                if a is None or a[0] != "f":
                    out.append(("markers:symlink-not-replaced", "regular file at " + rel,
                                "absent" if a is None else list(body(a)), {"dangling": t not in before}))
    return out, new_last


def step(world, ev, last):
    """One transition on the live tree: before-snapshot is world.cur (aged)."""
    before = world.cur
    obs = apply_event(world, ev)
    after = world.snapshot()
    viols, new_last = judge(ev, before, after, obs, last)
    return obs, after, viols, new_last


def case_features(init, trace):
    return {"id_dir_present": bool(init["dirs"][0]), "event": trace[-1].split(":")[0]}


def check_case(case):
    """Re-executes a trace from its initial state on a fresh directory, no snapshots. Judges the last event."""
    init, trace = case["init"], case["trace"]
    s = seam()
    root = tmp.mkscratch("c17r")
    try:
        w = World(root, init["dirs"])
        w.sync(initial_ents(init))
        w.snapshot()
        w.age()
        s.ctr = 0
        last = None
        viols = []
        for ev in trace:
            if not enabled(w, ev):
                raise ValueError("event %r is not enabled in replay of %r" % (ev, case))
            _, _, viols, last = step(w, ev, last)
            w.age()
        feats = case_features(init, trace)
        return [(c, e, o, dict(feats, **f)) for (c, e, o, f) in viols]
    finally:
        shutil.rmtree(root, ignore_errors=True)


def replay(case):
    return [{"clause": c, "case": case, "expected": e, "observed": o, "features": f}
            for (c, e, o, f) in check_case(case)]


# ---- initial states and units --------------------------------------------------------------------

def marker_layouts(tier, dirs):
    """List of (reg kinds, unreg kinds) for the present directories."""
    if tier == "thorough":
        opts = [MK_ORDER if dirs[i] else ["absent"] for i in (0, 1)]
        return [([r1, r2], [u1, u2]) for r1 in opts[0] for u1 in opts[0] for r2 in opts[1] for u2 in opts[1]]

    def lay(r, u):
        return ([r if dirs[0] else "absent", r if dirs[1] else "absent"],
                [u if dirs[0] else "absent", u if dirs[1] else "absent"])
    out = []
    for l in (lay("absent", "absent"), lay("file", "file"), lay("link", "link"), lay("dangling", "dangling"),
              lay("file", "link")):
        if l not in out:
            out.append(l)
    return out


def initial_states(tier, dirs, cls):
    mids = list(MID_KINDS) if tier == "thorough" else QUICK_MID
    if not dirs[0]:
        mids = ["absent"]
    mids = [m for m in mids if m.startswith("link") == (cls == "link")]
    return [{"dirs": list(dirs), "mid": m, "reg": r, "unreg": u}
            for m in mids for (r, u) in marker_layouts(tier, dirs)]


def units(tier, seed):
    us = []
    for dirs in ((1, 1), (1, 0), (0, 1), (0, 0)):
        for cls in ("nolink", "link"):
            if initial_states(tier, dirs, cls):
                us.append({"dirs": list(dirs), "mid_class": cls, "seed": seed})
    return us


def unit_weight(u):
    return sum(u["dirs"]) * 10 + (3 if u["mid_class"] == "nolink" else 1)


# ---- the search ------------------------------------------------------------------------------------

def run_unit(unit, tier):
    res = Result()
    dirs = tuple(unit["dirs"])
    comp = (dirs, unit["mid_class"])
    rng = random.Random(unit.get("seed", 0))
    inits = initial_states(tier, dirs, unit["mid_class"])
    rng.shuffle(inits)                               # the seed permutes visiting order only
    events = list(EVENTS)
    rng.shuffle(events)
    s = seam()
    root = tmp.mkscratch("c17")
    try:
        w = World(root, dirs)
        w.snapshot()
        seen = {}
        nodes = []            # index -> [ents (aged), last, ctr, parent index, event, depth, init]
        frontier = collections.deque()
        for init in inits:
            ents = initial_ents(init)
            k = canon(dirs, ents, None)
            if k in seen:
                continue
            seen[k] = len(nodes)
            nodes.append((ents, None, 0, -1, None, 0, init))
            frontier.append(len(nodes) - 1)
        res.stat("initial_states", len(nodes))

        def trace_of(i):
            evs = []
            while nodes[i][3] >= 0:
                evs.append(nodes[i][4])
                i = nodes[i][3]
            return nodes[i][6], evs[::-1]

        outside = 0
        max_depth = 0
        succ = collections.defaultdict(set)       # the explored graph, for the depth-from-pristine statistic
        res.stat("events_that_raised", 0)
        res.stat("reads_that_exit_on_unparsable_file", 0)
        while frontier:
            if len(nodes) > MAX_STATES:
                res.exhaustive = False
                res.notes.append("state cap %d reached in unit %r: not closed" % (MAX_STATES, unit))
                break
            i = frontier.popleft()
            ents, last, ctr, _, _, depth, _ = nodes[i]
            max_depth = max(max_depth, depth)
            for ev in events:
                w.sync(ents)
                if not enabled(w, ev):
                    continue
                s.ctr = ctr
                obs, after, viols, new_last = step(w, ev, last)
                res.transitions += 1
                changed = aged(after) != ents
                okind = obs[0]
                if okind == "id":
                    okind = "id-first" if last is None else ("id-same" if obs[1] == last else "id-other")
                elif okind == "raised":
                    okind = "raised:" + obs[1]
                    res.stat("events_that_raised")
                elif okind == "exit":
                    res.stat("reads_that_exit_on_unparsable_file")
                ag = aged(after)
                touched = sorted(set(os.path.basename(r) for r in set(ag) | set(ents) if ag.get(r) != ents.get(r)))
                res.case(nontrivial=(changed or obs[0] == "id"),
                         outcome="%s/%s/%s" % (ev.split(":")[0], okind, ",".join(touched) or "-"))
                if viols:
                    init, tr = trace_of(i)
                    case = {"init": init, "trace": tr + [ev]}
                    confirmed = check_case(case)          # from scratch, on a fresh directory, no restore
                    w.snapshot()
                    seam().point(root)
                    got = set(c for (c, _, _, _) in confirmed)
                    for (c, e, o, f) in viols:
                        if c not in got:
                            raise RuntimeError("C17 harness: %s seen in the search does not reproduce from scratch: %r"
                                               % (c, case))
                    for (c, e, o, f) in confirmed:
                        res.violation(c, case, e, o, f)
                k = canon(dirs, after, new_last)
                if k not in seen:
                    seen[k] = len(nodes)
                    nodes.append((aged(after), new_last, s.ctr, i, ev, depth + 1, None))
                    frontier.append(len(nodes) - 1)
                    if component(dirs, after) != comp:
                        outside += 1
                succ[i].add(seen[k])
        closed = not frontier
        res.states = len(nodes)
        res.maxi("max_depth", max_depth)
        res.stat("states_outside_unit_component", outside)
        res.stat("closed_units", 1 if closed else 0)

        # how long a history has to be when the directories start out empty (graph search on the explored
        # transition graph, nothing is executed): shows that the closure contains real multi-step histories
        # even when every layout is also an initial state
        prist = [j for j, n in enumerate(nodes) if n[6] is not None and n[6]["mid"] == "absent"
                 and set(n[6]["reg"] + n[6]["unreg"]) == {"absent"}]
        if prist:
            dist = dict((j, 0) for j in prist)
            dq = collections.deque(prist)
            while dq:
                a = dq.popleft()
                for b in succ.get(a, ()):
                    if b not in dist:
                        dist[b] = dist[a] + 1
                        dq.append(b)
            res.stat("states_reachable_from_empty_directories", len(dist))
            res.maxi("max_depth_from_empty_directories", max(dist.values()))

        # every state's shortest history is executed once more end-to-end on a fresh directory (no snapshots):
        # it must arrive in the same canonical state. This validates snapshot/restore and counts complete traces.
        for i in range(len(nodes)):
            init, tr = trace_of(i)
            k = _rerun_canon(init, tr)
            res.traces += 1
            if seen.get(k) != i:
                raise RuntimeError("C17 harness: history %r / %r does not re-reach its state" % (init, tr))
        res.samples.append({"unit": unit, "states": len(nodes), "transitions": res.transitions,
                            "max_depth": max_depth, "closed": closed})
    finally:
        shutil.rmtree(root, ignore_errors=True)
    return res


def _rerun_canon(init, trace):
    s = seam()
    root = tmp.mkscratch("c17t")
    try:
        w = World(root, init["dirs"])
        w.sync(initial_ents(init))
        s.ctr = 0
        last = None
        for ev in trace:
            if not enabled(w, ev):
                raise RuntimeError("C17 harness: %r not enabled while re-running %r" % (ev, trace))
            _, _, _, last = step(w, ev, last)
            w.age()
        return canon(tuple(init["dirs"]), w.cur, last)
    finally:
        shutil.rmtree(root, ignore_errors=True)


TECHNIQUE = ("explicit-state breadth-first search to closure over a real configuration directory tree, transitions = "
             "the real marker / identifier functions, identifier-value symmetry reduction, shortest-trace counterexamples")
LEVEL_TEXT = ("Every history of reads, regenerations (each with either subscription-identity answer), registrations, "
              "unregistrations, marker deletions and symlink plantings is covered, from every enumerated initial layout of two "
              "configuration directories, because the search runs until no new canonical state appears; the invariants are "
              "evaluated on every transition of the real code on a real tmpfs tree.")
LEVEL_NOTE = ("Trusted: the identifier-value abstraction (argued in canon(), violations are re-executed concretely), the finite "
              "alphabet of initial file kinds and symlink targets, uuid4 / subscription identity / clock replaced at the seam; "
              "no concurrency between client runs, no other file kinds (directories, FIFOs) at marker locations.")
