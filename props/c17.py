"""C17 - client identity and registration markers stay coherent over any history.

Explicit-state breadth-first search in which the transition function is the real code of
insights/client/utilities.py acting on a REAL directory tree under /dev/shm:

    <root>/etc1/   first configuration directory  (machine-id, .registered, .unregistered)
    <root>/etc2/   second (legacy) configuration directory (.registered, .unregistered)   [etc3: a third one]
                   each of them: a real directory | absent | a symlink to a real directory | a dangling symlink
    <root>/tg/     where planted symlinks point to (t = existing file, nope = missing; idt / idnope / ids likewise
                   for a symlink at the machine-id location)

`constants.registered_files / unregistered_files` are pointed into the tree (in either order), the identifier file
is passed as `destination_file`.  The seams are below the code under test: `uuid.uuid4` of the standard library is
a counter, and the subscription identity is answered by `cert_auth.RHSM_CONFIG` / `cert_auth.rhsmCertificate.read`
(the real `_get_rhsm_identity` runs).

A state is the complete content of the tree (every entry: absent | regular file + content | symlink + target,
read back by scanning the directories after every event) plus the identifier returned last.  States are
de-duplicated on a canonical form (see `canon`), every (state, event) pair is executed exactly once, the search
runs until no new canonical state appears (closure).  Every event of the search models one client run: module-level
state of the code under test is put back to its import-time value before it (generic snapshot, `Hidden`).  A second
part runs every short event sequence in ONE process without that reset (one client run calls these helpers many
times), so state kept in module globals / caches is exercised as well.  Every violation is reported with the
shortest event trace from an initial state and is re-executed from scratch on a fresh directory (no snapshots, no
restore) before it is recorded.
"""
import builtins
import collections
import copy
import errno
import io
import itertools
import os
import random
import re
import shutil
import stat
import uuid as _uuid

from mc.result import Result
from harness import tmp

ID = "C17"
LEVEL = "model_checking"
RULE = ("explicit-state BFS to closure over the real directory tree: one case = one (canonical state, event) pair, "
        "executed once by restoring the state's tree and calling the real function; states are de-duplicated on "
        "(directory kinds, kind/content-class of every entry, relation of the stored identifier to the last "
        "returned one, whether the last returned one is the subscription identity); closure units are the "
        "components no event can leave (number / kind / list order of the configuration directories, whether "
        "machine-id is a symlink in the main components) so their state counts add up to the number of distinct "
        "states (states reached outside a unit's component are counted in counters.states_outside_unit_component, "
        "0 on the unchanged tree); the one-process units enumerate every event sequence up to a length bound from "
        "a few initial states without resetting module state, one case = one sequence judged at its last event "
        "(not counted as states); a case is non-trivial when the (last) event changed the tree or returned an identifier; "
        "fault units: closure over (canonical state, marker event) AND (canonical state, marker event, k, fault kind) for "
        "every k up to the number of file-system mutations the un-faulted event performed in that state (measured through "
        "the interception seam), the state a faulted event leaves is a state of the search like any other; these units "
        "re-visit marker layouts of the main components with the identifier absent (their states are counted again), they "
        "are partitioned by the location of a real directory at a marker location (no event can move it); a faulted case "
        "is non-trivial when the fault fired (always, by construction; counters.faulted_transitions)")
ASSUMPTIONS = [
    "identifier VALUES are abstracted to (spelling class, equal to the last returned id or not, last returned id is the "
    "subscription identity or not): the code under test never compares or branches on an identifier's value beyond "
    "'parses as a UUID' (argument in canon())",
    "marker / symlink-target file CONTENT is abstracted to empty / non-empty: the code never reads these files",
    "uuid.uuid4 (standard library) is a counter; the subscription identity is an enumerated environment answer per "
    "call given through cert_auth.RHSM_CONFIG / rhsmCertificate.read; the clock only feeds marker content (abstracted)",
    "the environment moves only at the stated places: symlinks are planted at vacant marker / identifier locations; "
    "nobody else deletes or edits the identifier file between client runs (the statement could not hold otherwise); "
    "only regular files and symlinks occupy marker / identifier locations (the quantifier names no other kind)",
    "state of the code under test that survives a call lives in module globals, function defaults, lru caches or class "
    "attributes of InsightsConstants (these are reset between modelled client runs); the file system is the only "
    "other memory",
    "the tree lives on tmpfs (/dev/shm); files are aged to a fixed old mtime before every event so that any rewrite "
    "is visible in mtime_ns; the checks run as root, so permission failures are not produced by the file system itself",
    "fault units: the only doors to the file system are os.remove/unlink/rmdir/rename/replace/symlink/link/mkdir/truncate, "
    "os.open with a writing flag and open/io.open with a writing mode (composite helpers of os, shutil, pathlib, tempfile "
    "go through them); exactly one fault per event: the k-th mutation below the tree's root does not happen and raises "
    "OSError(EPERM | EROFS | EIO) or kills the run (an exception no handler catches; every later mutation of the same "
    "run is refused too). ENOENT is not a fault kind (a removal that reports ENOENT says the file is already gone). "
    "A real directory at a marker location (empty / non-empty) is the one non-file kind admitted, in the fault units only, "
    "as an un-mocked way of making the real os.remove fail; an entry of any kind at a marker location counts as that marker",
    "after an operation that its environment cut short (injected fault fired, or it raised with a real directory at a "
    "marker location) only preservation is demanded: a layout with no directory holding both markers does not become one "
    "with both (weaker global reading), and symlink targets stay untouched; an operation that completes is judged in full",
]

# The pre-existing identifier MUST contain hex letters: the first version used 11111111-2222-4333-8444-555555555555,
# whose upper-case spelling is itself, so the "upper" kind silently coincided with "A" (a seeded change that returns
# upper-case hyphenated identifiers verbatim was missed). _alphabet_is_sharp() now refuses coinciding kinds.
UA = "a1b2c3d4-e5f6-4a7b-8c9d-0e1f2a3b4c5d"       # pre-existing identifier (v4)
UB = "bbbbbbbb-bbbb-4bbb-8bbb-bbbbbbbbbbbb"       # subscription identity answer (v4)
UNV4 = "a1b2c3d4-e5f6-1a7b-cc9d-0e1f2a3b4c5d"     # parses as a UUID, not version 4
UMIX = UA.replace("a", "A", 1)                    # exactly one upper-case hex digit
CANON_RE = re.compile(r"^[0-9a-f]{8}-[0-9a-f]{4}-[0-9a-f]{4}-[0-9a-f]{4}-[0-9a-f]{12}$")
# what the oracle calls an existing VALID identifier file: anything that parses as a UUID - hyphenated or the legacy
# un-hyphenated form (the property's quantifier names it), any letter case, optional surrounding white space.
# "An existing identifier file is never rewritten by a read": nothing is demanded for empty or unparsable files,
# which a read may legitimately replace or reject. (First version exempted legacy files too; a seeded change that
# rewrites them on read showed that exemption was weaker than the statement.)
VALID_RE = re.compile(r"^\s*[0-9a-fA-F]{8}-?[0-9a-fA-F]{4}-?[0-9a-fA-F]{4}-?[0-9a-fA-F]{4}-?[0-9a-fA-F]{12}\s*$")
OLD_NS = 1000000000 * 10 ** 9                      # 2001-09-09: every file is aged to this before an event

MID = "etc1/machine-id"
T_OK, T_NO, T_ID, T_IDNO, T_IDS = "../tg/t", "../tg/nope", "../tg/idt", "../tg/idnope", "../tg/ids"
T_MID, T_DIR = "../etc1/machine-id", "../tg"


_REG = dict((n, ["etc%d/.registered" % (i + 1) for i in range(n)]) for n in (1, 2, 3))
_UNREG = dict((n, ["etc%d/.unregistered" % (i + 1) for i in range(n)]) for n in (1, 2, 3))


def reg_paths(n):
    return _REG[n]


def unreg_paths(n):
    return _UNREG[n]


def marker_path(name):
    """reg2 -> etc2/.registered, unreg1 -> etc1/.unregistered"""
    return "etc%s/%s" % (name[-1], ".registered" if name.startswith("reg") else ".unregistered")


# machine-id initial kinds: name -> (entry at MID or None, content of tg/idt or None)
MID_KINDS = collections.OrderedDict([
    ("absent", (None, None)),
    ("A", (("f", UA), None)),
    ("A_nl", (("f", UA + "\n"), None)),
    ("legacy", (("f", UA.replace("-", "")), None)),
    ("empty", (("f", ""), None)),
    ("garbage", (("f", "not-a-uuid"), None)),
    ("link:A", (("l", T_ID), UA)),
    ("link:dangling", (("l", T_IDNO), None)),
    ("upper", (("f", UA.upper()), None)),
    # full marker-layout product with these only in thorough; quick has them in the one-directory components
    ("mixed", (("f", UMIX), None)),
    ("LEGACY", (("f", UA.replace("-", "").upper()), None)),
    ("upper_nl", (("f", UA.upper() + "\n"), None)),
    ("nonv4", (("f", UNV4), None)),
    ("ws", (("f", "\n"), None)),
    ("A_crlf", (("f", UA + "\r\n"), None)),
    ("A_sp", (("f", " " + UA + " "), None)),
    ("braced", (("f", "{" + UA + "}"), None)),
    ("bom", (("f", "\xef\xbb\xbf" + UA), None)),          # bytes EF BB BF in front (latin-1 spelled)
    ("link:legacy", (("l", T_ID), UA.replace("-", ""))),
    ("link:upper", (("l", T_ID), UA.upper())),
    ("link:empty", (("l", T_ID), "")),
])
QUICK_MID = ["absent", "A", "A_nl", "legacy", "upper", "empty", "garbage", "link:A", "link:dangling"]
SMALL_MID = ["absent", "A", "legacy", "empty", "link:A", "link:dangling"]
MARKER_KINDS = {"absent": None, "file": ("f", "M"), "link": ("l", T_OK), "dangling": ("l", T_NO),
                # single-deviation kinds: an empty regular file, a symlink to the identifier file, a symlink to a directory
                "efile": ("f", ""), "link_mid": ("l", T_MID), "link_dir": ("l", T_DIR)}
MK_BASE = ["absent", "file", "link", "dangling"]
MK_EXOTIC = ["efile", "link_mid", "link_dir"]
# the fault part only: a REAL directory occupies a marker location (non-empty / empty). Nothing the code under test does can
# remove it (os.remove of a directory fails with EISDIR), so it is an environment fault that needs no interception at all.
MARKER_KINDS["dir_ne"] = ("d", "keep")
MARKER_KINDS["dir"] = ("d", "")
MK_DIR = ["dir_ne", "dir"]

# subscription identity answers (environment, chosen per call)
ANSWERS = collections.OrderedDict([
    ("none", None),            # no rhsm configuration at all
    ("B", UB),
    ("empty", ""),             # a certificate whose CN is the empty string (falsy)
    ("BHEX", UB.replace("-", "")),
    ("err", IOError),          # configuration present, certificate unreadable
    ("BUP", UB.upper()),
    ("BMIX", UB.replace("b", "B", 1)),
    ("garbage", "not-a-uuid"),
])
NO_IDENTITY = ("none", "empty", "err")
QUICK_ANSWERS = ["none", "B", "empty", "BHEX", "BUP"]
MARKER_EVENTS = ["reg", "unreg", "delreg", "delunreg"]
FAULT_KINDS = collections.OrderedDict([
    # what the k-th file-system mutation does instead of happening. ENOENT is deliberately not a kind: a removal that
    # fails with ENOENT says the file is gone, which is not a fault (the code under test ignores exactly that one).
    ("EPERM", errno.EPERM),      # immutable file / SELinux denial (PermissionError)
    ("kill", None),              # the process dies right before the mutation
    ("EROFS", errno.EROFS),      # read-only (bind) mount: a plain OSError
    ("EIO", errno.EIO),
])
QUICK_FAULTS = ["EPERM", "kill"]


def id_events(answers):
    return ["%s:%s" % (op, a) for op in ("read", "new") for a in answers]


def plant_events(n):
    return ["plant:%s%d:%s" % (m, i + 1, t) for i in range(n) for m in ("reg", "unreg") for t in ("t", "x")]


PLANT_MID = ["plant:mid:t", "plant:mid:x"]

# closure components. "main": every combination of the base kinds at every marker location is an initial state, marker
# plantings are events, machine-id link / no link are separate units. "extra": other directory shapes with a reduced set
# of initial layouts, identifier-location plantings as events, no marker plantings (the links are in the initial layouts).
MAIN_DIRS = [(1, 1), (1, 0), (0, 1), (0, 0)]
FAULT_DIRS = [(1, 1), (1, 0), (0, 1)]
EXTRA = [  # (dirs, order)
    ((1, 1), "rev"),          # the two lists name the legacy directory first
    ((2, 1), "fwd"), ((1, 2), "fwd"),       # a configuration directory that is a symlink to a directory
    ((3, 1), "fwd"), ((1, 3), "fwd"),       # ... a dangling symlink
    ((1, 1, 1), "fwd"), ((1, 0, 1), "fwd"),   # three configuration directories (first / middle / last)
    ((1,), "fwd"),            # a single one
]

BOUNDS = {
    "quick": {"main_components": "2 directories, presence {11,10,01,00} x machine-id kinds %s (ALL kinds and ALL answers where at most one "
                                 "directory exists) x EVERY combination of "
                                 "{absent, file, symlink->file, dangling symlink} at the 4 marker locations (incl. all "
                                 "layouts with both markers present); events: read/new x answers %s, reg, unreg, delreg, "
                                 "delunreg, 8 marker plantings" % (QUICK_MID, QUICK_ANSWERS),
              "extra_components": "%s x machine-id kinds %s x reduced layouts (every per-directory pair uniformly and in one "
                                  "directory only; one exotic kind %s at one location); events: read/new x {none,B}, marker "
                                  "events, 2 identifier-location plantings" % (EXTRA, SMALL_MID, MK_EXOTIC),
              "one_process": "all event sequences of length <= 3 over read/new x {none,B}, reg, unreg, delreg, delunreg from "
                             "8 initial states, module state not reset inside a sequence",
              "fault_units": "marker events reg/unreg/delreg/delunreg, each also with a fault at its k-th file-system mutation for "
                             "EVERY k (1..number of mutations of the un-faulted event in that state, max measured in "
                             "counters.max_mutations_of_one_event) x fault kinds %s; directories %s: every combination of {absent, "
                             "file, symlink->file, dangling symlink} at every marker location, and the same with a real directory "
                             "(%s) at one location; shapes %s: reduced layouts + a real directory (%s) at one location; identifier "
                             "absent, no identifier events" % (QUICK_FAULTS, FAULT_DIRS, MK_DIR[:1], EXTRA, MK_DIR),
              "depth": "closure (unbounded)"},
    "thorough": {"main_components": "as quick with machine-id kinds %s, all answers %s, plus every layout with one exotic "
                                    "kind %s at one location and any base kinds elsewhere" % (list(MID_KINDS), list(ANSWERS), MK_EXOTIC),
                 "extra_components": "as quick with all machine-id kinds and all answers",
                 "one_process": "length <= 5",
                 "fault_units": "as quick with fault kinds %s and both directory kinds %s in the two-directory shapes" % (list(FAULT_KINDS), MK_DIR),
                 "depth": "closure (unbounded)"},
}
CAP_S = {"quick": 300, "thorough": 2400}
MAX_STATES = 400000        # guard against a tree whose state space does not close (a capped unit reports exhaustive: false)


# ---- the seam ---------------------------------------------------------------------------------

class _Cert(object):
    PATH = "/etc/pki/consumer/"
    CERT = "cert.pem"
    KEY = "key.pem"

    def __init__(self, cn):
        self.cn = cn

    def getConsumerId(self):
        return self.cn


class Hidden(object):
    """Generic snapshot of what the code under test could remember between calls inside one process: module globals,
    mutable function defaults, lru caches, class attributes of InsightsConstants. reset() puts the import-time values
    back (a new client run is a new process). Nothing here names an attribute of the code under test."""

    CONTAINERS = (dict, list, set, bytearray, collections.deque)

    def __init__(self, module, klass, skip_class_attrs):
        self.module, self.klass, self.skip = module, klass, set(skip_class_attrs)
        self.mod = self._record(vars(module))
        self.cls = self._record(dict((k, v) for k, v in vars(klass).items() if k not in self.skip))
        self.mod_len, self.cls_len = len(vars(module)), len(vars(klass))
        self.defaults = []
        self.caches = []
        for v in list(vars(module).values()):
            if callable(v) and getattr(v, "__module__", None) == module.__name__:
                if hasattr(v, "cache_clear"):
                    self.caches.append(v)
                f = getattr(v, "__wrapped__", v)
                d = getattr(f, "__defaults__", None) or ()
                for x in d:
                    if isinstance(x, self.CONTAINERS):
                        self.defaults.append((x, copy.deepcopy(x)))

    def _record(self, ns):
        rec = {}
        for k, v in ns.items():
            if k.startswith("__"):
                continue
            saved = None
            if isinstance(v, self.CONTAINERS):
                try:
                    saved = copy.deepcopy(v)
                except Exception:
                    saved = None
            rec[k] = (v, saved)
        self.names = getattr(self, "names", set()) | set(rec)
        return [(k, v, saved) for k, (v, saved) in rec.items()]

    @staticmethod
    def _refill(obj, saved):
        if obj == saved:
            return
        if isinstance(obj, (dict, set)):
            obj.clear()
            obj.update(copy.deepcopy(saved))
        elif isinstance(obj, collections.deque):
            obj.clear()
            obj.extend(copy.deepcopy(saved))
        else:
            obj[:] = copy.deepcopy(saved)

    def _restore(self, ns_owner, ns, rec, nlen):
        if len(ns) != nlen:
            for k in [k for k in ns if not k.startswith("__") and k not in self.names and k not in self.skip]:
                try:
                    delattr(ns_owner, k)           # a lazily created global (cache) goes away
                except Exception:
                    pass
        get = ns.get
        for k, v, saved in rec:
            if saved is not None:
                self._refill(v, saved)
            if get(k) is not v:
                setattr(ns_owner, k, v)

    def reset(self):
        self._restore(self.module, vars(self.module), self.mod, self.mod_len)
        self._restore(self.klass, vars(self.klass), self.cls, self.cls_len)
        for obj, saved in self.defaults:
            self._refill(obj, saved)
        for f in self.caches:
            f.cache_clear()


class _Seam(object):
    """Points the code under test at a directory and owns uuid4 / the subscription identity. One per process."""

    def __init__(self):
        self.ctr = 0
        self.answer = "none"
        orig_uuid4 = _uuid.uuid4
        _uuid.uuid4 = self.uuid4                    # standard-library seam: any import style in the code under test sees it
        import insights.client.utilities as U
        from insights.client.constants import InsightsConstants as C
        from insights.client import cert_auth
        self.U, self.C, self.cert_auth = U, C, cert_auth
        for k, v in list(vars(U).items()):          # `from uuid import uuid4` bound before the seam existed
            if v is orig_uuid4:
                setattr(U, k, self.uuid4)
        seam_ = self

        def read(cls):
            a = ANSWERS[seam_.answer]
            if a is IOError:
                raise IOError(2, "No such file or directory: cert.pem")
            return _Cert(a)
        cert_auth.rhsmCertificate.read = classmethod(read)
        self.hidden = Hidden(U, C, ("registered_files", "unregistered_files"))
        self.faults = _Faults(U)

    def uuid4(self):
        n = self.ctr
        self.ctr += 1
        return _uuid.UUID("c17c17c1-0000-4000-8000-%012x" % n)

    def set_answer(self, name):
        self.answer = name
        self.cert_auth.RHSM_CONFIG = None if name == "none" else self

    def point(self, root, n, order):
        key = (root, n, order)
        if getattr(self, "_pkey", None) != key:
            r = [os.path.join(root, p) for p in reg_paths(n)]
            u = [os.path.join(root, p) for p in unreg_paths(n)]
            if order == "rev":
                r, u = r[::-1], u[::-1]
            self._pkey, self._r, self._u = key, r, u
        self.C.registered_files = list(self._r)
        self.C.unregistered_files = list(self._u)


class _Killed(BaseException):
    """The modelled client run is dead (SIGKILL / power loss): no handler of the code under test catches this, and every
    later file-system mutation of the same run is refused as well (finally-blocks cannot repair anything)."""


_WRITE_FLAGS = os.O_WRONLY | os.O_RDWR | os.O_CREAT | os.O_TRUNC | os.O_APPEND


class _Faults(object):
    """Owns every door through which Python code mutates the file system: os.remove / unlink / rmdir / rename / replace /
    symlink / link / mkdir / truncate, os.open with a writing flag, open / io.open with a writing mode (the composite
    helpers of os, shutil, pathlib and tempfile go through these). The wrappers are installed only while an event of the
    code under test runs (arm .. disarm), count the mutations that address a path below the tree's root, and make the
    k-th one fail. Nothing here names a function of the code under test."""

    OS_PATH_FUNCS = ("remove", "unlink", "rmdir", "rename", "replace", "symlink", "link", "mkdir", "truncate")

    def __init__(self, module):
        self.module = module
        self.count = 0
        self.fail_at = 0
        self.kind = None
        self.fired = None
        self.dead = False
        self.root = None
        self.patches = []          # (owner, attribute, original, wrapper)
        origs = {}
        for name in self.OS_PATH_FUNCS:
            orig = getattr(os, name)
            # symlink(src, dst) / link(src, dst): the mutated path is the second argument
            w = self._wrap("os." + name, orig, self._path_arg(1 if name in ("symlink", "link") else 0))
            self.patches.append((os, name, orig, w))
            origs[id(orig)] = (orig, w)
        w = self._wrap("os.open", os.open, self._os_open_arg)
        self.patches.append((os, "open", os.open, w))
        origs[id(os.open)] = (os.open, w)
        w = self._wrap("open", builtins.open, self._open_arg)
        self.patches.append((builtins, "open", builtins.open, w))
        self.patches.append((io, "open", io.open, w))
        origs[id(builtins.open)] = (builtins.open, w)
        # `from os import remove` style bindings inside the module under test
        for k, v in list(vars(module).items()):
            hit = origs.get(id(v))
            if hit is not None and hit[0] is v:
                self.patches.append((module, k, v, hit[1]))

    @staticmethod
    def _path_arg(pos):
        def get(a, kw):
            if len(a) > pos:
                return a[pos]
            return kw.get("dst", kw.get("path"))
        return get

    @staticmethod
    def _os_open_arg(a, kw):
        flags = a[1] if len(a) > 1 else kw.get("flags", 0)
        return (a[0] if a else kw.get("path")) if (flags & _WRITE_FLAGS) else None

    @staticmethod
    def _open_arg(a, kw):
        mode = a[1] if len(a) > 1 else kw.get("mode", "r")
        if not isinstance(mode, str) or not (set(mode) & set("wax+")):
            return None
        return a[0] if a else kw.get("file")

    def _wrap(self, name, orig, path_of):
        me = self

        def wrapper(*a, **kw):
            if me.root is not None:
                p = path_of(a, kw)
                if p is not None and me._below_root(p, kw):
                    if me.dead:
                        raise _Killed()
                    me.count += 1
                    if me.count == me.fail_at:
                        me.fired = name
                        if me.kind == "kill":
                            me.dead = True
                            raise _Killed()
                        code = FAULT_KINDS[me.kind]
                        raise OSError(code, os.strerror(code), p if isinstance(p, str) else None)
            return orig(*a, **kw)
        wrapper.__name__ = getattr(orig, "__name__", name)
        return wrapper

    def _below_root(self, p, kw):
        if kw.get("dir_fd") is not None or kw.get("dst_dir_fd") is not None:
            return True
        try:
            p = os.fspath(p)
        except TypeError:
            return False                 # a file descriptor: the open that produced it was the mutation
        if isinstance(p, bytes):
            p = p.decode("latin-1")
        return os.path.abspath(p).startswith(self.root + os.sep)

    def arm(self, root, fail_at=0, kind=None):
        self.root, self.count, self.fail_at, self.kind, self.fired, self.dead = root, 0, fail_at, kind, None, False
        for owner, attr, _, w in self.patches:
            setattr(owner, attr, w)

    def disarm(self):
        for owner, attr, orig, _ in self.patches:
            setattr(owner, attr, orig)
        self.root = None
        return self.count, self.fired


_SEAM = None


def seam():
    global _SEAM
    if _SEAM is None:
        _SEAM = _Seam()
    return _SEAM


# ---- the world: a real directory tree ------------------------------------------------------------

class World(object):
    """dirs[i]: 0 absent | 1 directory | 2 symlink to the directory real<i> | 3 dangling symlink"""

    def __init__(self, root, dirs, order="fwd"):
        self.root = root
        self.dirs = tuple(int(d) for d in dirs)
        self.n = len(self.dirs)
        self.order = order
        self.top = {"tg": ("d", "")}
        self.scan = ["tg"]
        for i, k in enumerate(self.dirs):
            e = "etc%d" % (i + 1)
            if k == 1:
                self.top[e] = ("d", "")
            elif k == 2:
                self.top["real%d" % (i + 1)] = ("d", "")
                self.top[e] = ("l", "real%d" % (i + 1))
            elif k == 3:
                self.top[e] = ("l", "gone%d" % (i + 1))
            if k in (1, 2):
                self.scan.append(e)
        for name in sorted(self.top, key=lambda x: self.top[x][0]):     # directories first
            self._mktop(name)
        self.cur = {}
        self.meta = {}             # rel -> (inode, size) of regular files as last seen
        self.point()

    def point(self):
        seam().point(self.root, self.n, self.order)

    def usable(self, i):
        return self.dirs[i] in (1, 2)

    def _mktop(self, name):
        k, t = self.top[name]
        path = os.path.join(self.root, name)
        if k == "d":
            os.mkdir(path)
        else:
            os.symlink(t, path)

    def p(self, rel):
        return os.path.join(self.root, rel)

    def snapshot(self):
        """Reads the whole tree back: rel path -> (kind, data, mtime_ns)."""
        ents = {}
        present = set()
        with os.scandir(self.root) as it:
            for e in it:
                present.add(e.name)
                want = self.top.get(e.name)
                if want is None:
                    ok = False
                elif want[0] == "d":
                    ok = e.is_dir(follow_symlinks=False)
                else:
                    ok = e.is_symlink() and os.readlink(e.path) == want[1]
                if not ok:
                    ents[e.name] = ("x", "", 0)    # something created / replaced outside the configuration directories
        for name in self.top:
            if name not in present:
                ents[name] = ("x", "", 0)          # a directory of the layout vanished
        cur, meta, newmeta = self.cur, self.meta, {}
        for d in self.scan:
            if d in ents:
                continue
            with os.scandir(os.path.join(self.root, d)) as it:
                for e in it:
                    rel = d + "/" + e.name
                    st = e.stat(follow_symlinks=False)
                    if stat.S_ISLNK(st.st_mode):
                        ents[rel] = ("l", os.readlink(e.path), 0)
                    elif stat.S_ISREG(st.st_mode):
                        m = (st.st_ino, st.st_size)
                        old = cur.get(rel)
                        if (st.st_mtime_ns == OLD_NS and old is not None and old[0] == "f" and old[2] == OLD_NS
                                and meta.get(rel) == m):
                            # same inode, same size, still carrying the aged mtime: not written since it was aged
                            ents[rel] = old
                        else:
                            with open(e.path, "rb") as fh:
                                ents[rel] = ("f", fh.read().decode("latin-1"), st.st_mtime_ns)
                        newmeta[rel] = m
                    elif stat.S_ISDIR(st.st_mode):
                        # a real directory at a marker / identifier location: kept with the names it holds
                        ents[rel] = ("d", ",".join(sorted(os.listdir(e.path))), 0)
                    else:
                        ents[rel] = ("x", "", 0)
        self.cur = ents
        self.meta = newmeta
        return ents

    def _remove(self, rel):
        path = self.p(rel)
        if os.path.isdir(path) and not os.path.islink(path):
            shutil.rmtree(path)
        elif os.path.lexists(path):
            os.remove(path)
        if rel in self.top:
            self._mktop(rel)

    def _create(self, rel, ent):
        path = self.p(rel)
        if ent[0] == "l":
            os.symlink(ent[1], path)
        elif ent[0] == "f":
            with open(path, "wb") as fh:
                fh.write(ent[1].encode("latin-1"))
                st = os.fstat(fh.fileno())
            os.utime(path, ns=(OLD_NS, OLD_NS))
            self.meta[rel] = (st.st_ino, st.st_size)
        elif ent[0] == "d":
            os.mkdir(path)
            for name in [x for x in ent[1].split(",") if x]:
                with open(os.path.join(path, name), "wb"):
                    pass
        else:
            raise ValueError("cannot create %r" % (ent,))

    def sync(self, target):
        """Makes the tree equal to `target` (a snapshot whose files all carry OLD_NS)."""
        cur = self.cur
        for rel in sorted(cur, key=lambda r: (cur[r][0] != "x", r)):      # repair the top level first
            ent = cur[rel]
            t = target.get(rel)
            if t == ent:
                continue
            if t is not None and ent[0] == "f" and t[0] == "f" and ent[1] == t[1]:
                os.utime(self.p(rel), ns=(OLD_NS, OLD_NS))
                continue
            self._remove(rel)
            del cur[rel]
            self.meta.pop(rel, None)
            if ent[0] == "x":
                # anything below a repaired top-level directory is gone as well
                for r2 in [r for r in cur if r.startswith(rel + "/")]:
                    del cur[r2]
        for rel, t in target.items():
            if rel not in cur:
                self._create(rel, t)
        self.cur = dict(target)

    def age(self):
        """Time passes between client runs: every regular file gets the fixed old mtime."""
        self.sync(aged(self.cur))


def aged(ents):
    return {rel: ((e[0], e[1], OLD_NS) if e[0] == "f" else e) for rel, e in ents.items()}


def initial_ents(init):
    """Initial-state descriptor -> snapshot.
    init = {"dirs": [k1, k2(, k3)], "mid": kind, "reg": [kinds], "unreg": [kinds] (, "order": "rev") (, "ids": 1)}"""
    ents = {"tg/t": ("f", "TARGET", OLD_NS)}
    dirs = init["dirs"]
    n = len(dirs)
    if init.get("ids"):
        ents["tg/ids"] = ("f", UA, OLD_NS)
    if dirs[0] in (1, 2):
        ment, idt = MID_KINDS[init["mid"]]
        if ment is not None:
            ents[MID] = (ment[0], ment[1], OLD_NS if ment[0] == "f" else 0)
        if idt is not None:
            ents["tg/idt"] = ("f", idt, OLD_NS)
    elif init["mid"] != "absent":
        raise ValueError("machine-id kind %r needs the first directory" % init["mid"])
    for i in range(n):
        for paths, kinds in ((reg_paths(n), init["reg"]), (unreg_paths(n), init["unreg"])):
            k = MARKER_KINDS[kinds[i]]
            if k is None:
                continue
            if dirs[i] not in (1, 2):
                raise ValueError("marker in an absent directory")
            ents[paths[i]] = (k[0], k[1], OLD_NS if k[0] == "f" else 0)
    return ents


def resolve(rel, ent):
    """Where the symlink `ent` planted at `rel` points to, as a path relative to the root."""
    return os.path.normpath(os.path.join(os.path.dirname(rel), ent[1]))


def id_file(ents):
    """The regular file the identifier location currently resolves to (one symlink hop), or None."""
    e = ents.get(MID)
    if e is None:
        return None
    if e[0] == "f":
        return MID
    if e[0] == "l":
        t = resolve(MID, e)
        te = ents.get(t)
        if te is not None and te[0] == "f":
            return t
    return None


# ---- canonical form ------------------------------------------------------------------------------

def forced_v4(content):
    """What the code under test is documented to return for a stored identifier, or None if it does not parse."""
    try:
        return str(_uuid.UUID(content.strip(), version=4))
    except ValueError:
        return None


KNOWN_UNPARSABLE = set(v[0][1] for v in MID_KINDS.values() if v[0] is not None and v[0][0] == "f") | \
    set(v[1] for v in MID_KINDS.values() if v[1] is not None) | set(a for a in ANSWERS.values() if isinstance(a, str))


def id_class(content, last):
    """Everything generate_machine_id can observe about the stored identifier, with the VALUE replaced by
    its relation to the identifier returned last."""
    if content == "":
        return "empty"
    s = content.strip()
    try:
        raw = _uuid.UUID(s)
    except ValueError:
        if s == "":
            return "blank"
        # the enumerated unparsable contents are kept apart; anything else (e.g. a marker time stamp a changed tree
        # wrote through a symlink) is one class - it depends on the clock and the code can only reject it anyway
        return "unparsable:" + content if content in KNOWN_UNPARSABLE else "unparsable"
    forced = str(_uuid.UUID(s, version=4))          # what the code under test returns for it
    if s == str(raw):
        form = "hyphenated"
    elif s == raw.hex:
        form = "legacy-hex"
    elif s == str(raw).upper():
        form = "HYPHENATED"
    elif s == raw.hex.upper():
        form = "LEGACY-HEX"
    else:
        form = "literal:" + s                       # unusual spelling: not abstracted at all
    return (form, content.replace(s, "<id>"), forced == str(raw), forced == last)


def canon(dirs, ents, last):
    """Canonical state.

    Why merged states have the same futures.  Two concrete states with the same canonical form differ only in
    (a) the VALUE of the identifier in the identifier file and of the identifier returned last, (b) the bytes of
    non-empty marker / symlink-target files, (c) mtimes, (d) the uuid4 counter.
    (a) utilities.py reads the identifier file, tests it for emptiness, strips it and hands it to uuid.UUID; it
    never compares an identifier with anything and never branches on its value.  What it can see is therefore
    the spelling class kept in id_class() (empty / blank / unparsable / hyphenated / legacy hex / upper case /
    surrounding white space / already version 4 or not); the oracle additionally compares the returned
    identifier with the previous one, which is the kept relation `forced == last`.  A renaming of identifier
    values that preserves the spelling class and that relation maps every future of one state onto a future of
    the other with identical observations.  Fresh identifiers come from a counter that is restored together with
    the state, so they differ from every identifier already present in either state.  The subscription identity
    is the one constant the environment can hand out again at any time (when no usable identifier file exists a
    read returns it), therefore `last == UB` is part of the key.  Unusual spellings and the enumerated unparsable
    contents are kept literally (no merging).
    (b) marker and target files are never opened for reading by the code; the oracle compares their bytes only
    before/after a single event.  (c) the code never looks at time stamps; the harness ages all files before each
    event.  (d) see (a).
    An unsound merge could at worst hide a state; it cannot produce a false alarm, because every violation is
    re-executed from its initial state on a fresh directory without snapshots before it is recorded."""
    idf = id_file(ents)
    items = []
    for rel in sorted(ents):
        k, data, _ = ents[rel]
        if k == "l":
            items.append((rel, "l", data))
        elif k == "f":
            if rel == idf:
                items.append((rel, "f", id_class(data, last)))
            else:
                items.append((rel, "f", "empty" if data == "" else "nonempty"))
        else:
            items.append((rel, k, data if k == "d" else ""))
    return (tuple(dirs), tuple(items), last is not None, last == UB)


def component(ents, split_mid):
    """Part of the state no event of a unit can change on the unchanged tree (beyond the directory shape, which is
    fixed per unit): in the main components, whether the identifier location is a symlink."""
    if split_mid == "dirs-at-markers":
        return ",".join(sorted(rel for rel, e in ents.items() if e[0] == "d" and not rel.startswith("tg"))) or "none"
    if not split_mid:
        return "any"
    e = ents.get(MID)
    return "link" if (e is not None and e[0] == "l") else "nolink"


# ---- events and oracle ---------------------------------------------------------------------------

def split_fault(ev):
    """"reg!2!EPERM" -> ("reg", (2, "EPERM")): the marker event `reg` whose 2nd file-system mutation fails with EPERM."""
    if "!" not in ev:
        return ev, None
    base, k, kind = ev.split("!")
    if base not in MARKER_EVENTS or kind not in FAULT_KINDS or int(k) < 1:
        raise ValueError("unknown faulted event %r" % ev)
    return base, (int(k), kind)


def enabled(world, ev):
    if not ev.startswith("plant:"):
        return True            # a faulted event whose fault point does not exist is refused after the fact (step)
    name = ev.split(":")[1]
    if name == "mid":
        return world.usable(0) and MID not in world.cur
    return world.usable(int(name[-1]) - 1) and marker_path(name) not in world.cur


def apply_event(world, ev):
    """Calls the real function (or makes the environment move). Returns the observation."""
    s = seam()
    U = s.U
    ev, fault = split_fault(ev)
    world.mutations, world.fired = 0, None
    parts = ev.split(":")
    if ev in MARKER_EVENTS:
        # the marker functions run with every mutating file-system call counted (and the k-th one failing)
        s.faults.arm(world.root, *(fault or (0, None)))
        try:
            return _apply_marker(U, ev)
        finally:
            world.mutations, world.fired = s.faults.disarm()
    if parts[0] == "plant":
        if parts[1] == "mid":
            os.symlink(T_IDS if parts[2] == "t" else T_IDNO, world.p(MID))
        else:
            os.symlink(T_OK if parts[2] == "t" else T_NO, world.p(marker_path(parts[1])))
        return ("ok", None)
    try:
        if parts[0] in ("read", "new") and parts[1] in ANSWERS:
            s.set_answer(parts[1])
            try:
                r = U.generate_machine_id(new=(parts[0] == "new"), destination_file=world.p(MID))
            except SystemExit as ex:
                return ("exit", ex.code)
            return ("id", r)
        if ev == "reg":
            U.write_registered_file()
        elif ev == "unreg":
            U.write_unregistered_file()
        elif ev == "delreg":
            U.delete_registered_file()
        elif ev == "delunreg":
            U.delete_unregistered_file()
        else:
            raise KeyError(ev)
    except KeyError:
        raise ValueError("unknown event %r" % ev)
    except Exception as ex:          # the real function raised: an observation, not a verdict
        return ("raised", type(ex).__name__)
    return ("ok", None)


def _apply_marker(U, ev):
    try:
        if ev == "reg":
            U.write_registered_file()
        elif ev == "unreg":
            U.write_unregistered_file()
        elif ev == "delreg":
            U.delete_registered_file()
        else:
            U.delete_unregistered_file()
    except _Killed:
        return ("killed", None)
    except Exception as ex:          # the real function raised: an observation, not a verdict
        return ("raised", type(ex).__name__)
    return ("ok", None)


def body(ent):
    return None if ent is None else [ent[0], ent[1]]


def both_present(ents, n):
    return [i for i in range(n) if reg_paths(n)[i] in ents and unreg_paths(n)[i] in ents]


def judge(ev, before, after, obs, last, n, fired=None):
    """The oracle for one transition. Returns (violations [(clause, expected, observed, features)], new last id).
    `fired`: the file-system call at which an injected fault fired during the event, or None."""
    out = []
    ev, fault = split_fault(ev)
    REG, UNREG = reg_paths(n), unreg_paths(n)
    # The operation was cut short by its ENVIRONMENT: an injected fault fired, or it raised while a real directory sits
    # at a marker location (the real os.remove cannot succeed on it). The statement's "after any sequence of register and
    # unregister operations" then promises less: the operation did not take place as a whole, so nothing says it repairs
    # a layout that was incoherent before. What "never exist together" still demands - and what the delete-first order
    # of the code guarantees at every instant - is that a coherent layout does not become incoherent (weaker, global
    # reading: no directory held both markers before). An operation that completes is judged as before.
    dir_at_marker = sorted(rel for rel in REG + UNREG if rel in before and before[rel][0] == "d")
    cut_short = fired is not None or (obs[0] in ("raised", "killed") and bool(dir_at_marker))
    parts = ev.split(":")
    base = parts[0]
    new_last = last
    if base in ("read", "new"):
        idf = id_file(before)
        stored = forced_v4(before[idf][1]) if idf is not None else None
        if obs[0] == "id":
            r = obs[1]
            # canonical = the text uuid.UUID renders: lower-case 8-4-4-4-12 (CANON_RE matches exactly the strings r
            # with r == str(uuid.UUID(r))); compared as returned, nothing is normalised before any comparison here
            if not (isinstance(r, str) and CANON_RE.match(r)):
                out.append(("id:not-canonical-uuid", "8-4-4-4-12 lower-case hex", repr(r), {}))
            if base == "read" and last is not None and r != last:
                out.append(("id:changed-without-regenerate", last, r, {}))
            if base == "new" and parts[1] in NO_IDENTITY and r in (last, stored):
                # "stays the same UNTIL a new one is explicitly requested" (docstring: "Force generate a new ID"): when
                # no subscription identity is on offer, the identifier returned for the request is not the old one.
                # With a subscription identity the code deliberately reuses that identity: nothing is demanded.
                out.append(("id:regenerate-returned-old-id", "an identifier other than %s" % r, r, {}))
            new_last = r
        else:
            # an exit (unparsable file) or an exception is not a returned identifier. After an identifier has been
            # returned, and without a regeneration request since, a read that returns nothing did not "stay the same".
            # Same clause as a differing identifier: the identifier did not stay the same.
            if base == "read" and last is not None:
                out.append(("id:changed-without-regenerate", last, "no identifier: %s %s" % (obs[0], obs[1]),
                            {"how": obs[0]}))
            if base == "new":
                new_last = None            # a new one was requested: nothing is known to be current any more
    if base == "read":
        if idf is not None and VALID_RE.match(before[idf][1]):
            if after.get(MID) != before.get(MID) or after.get(idf) != before.get(idf):
                same = body(after.get(idf)) == body(before.get(idf))
                out.append(("id:file-rewritten-by-read",
                            {"entry": list(before[idf])},
                            {"entry": list(after[idf]) if idf in after else None},
                            {"content_changed": not same}))
    if cut_short:
        if not both_present(before, n):
            for i in both_present(after, n):
                out.append(("markers:both-present-after-fault", "at most one marker in etc%d" % (i + 1),
                            {REG[i]: body(after[REG[i]]), UNREG[i]: body(after[UNREG[i]])},
                            {"by": base, "fault": fault[1] if fault else "directory-at-marker-location",
                             "at_call": fired or "none", "ended": obs[0]}))
    elif base in ("reg", "unreg"):
        for i in both_present(after, n):
            out.append(("markers:both-present", "at most one marker in etc%d" % (i + 1),
                        {REG[i]: body(after[REG[i]]), UNREG[i]: body(after[UNREG[i]])},
                        {"after": base}))
    elif base != "plant":
        # reads, regenerations and marker deletions are part of the quantified histories: from a coherent layout they
        # cannot lead to an incoherent one (every coherent layout is what some register / unregister history leaves)
        if not both_present(before, n):
            for i in both_present(after, n):
                out.append(("markers:coherence-broken", "at most one marker in etc%d" % (i + 1),
                            {REG[i]: body(after[REG[i]]), UNREG[i]: body(after[UNREG[i]])}, {"by": base}))
    if base in ("reg", "unreg", "delreg", "delunreg"):
        written = REG if base == "reg" else (UNREG if base == "unreg" else [])
        for rel in REG + UNREG:
            b = before.get(rel)
            if b is None or b[0] != "l":
                continue
            t = resolve(rel, b)
            if body(before.get(t)) != body(after.get(t)):
                out.append(("markers:symlink-followed", {t: body(before.get(t))}, {t: body(after.get(t))},
                            {"dangling": t not in before and t != "tg",
                             "link_at": "written" if rel in written else "deleted", "by": base}))
            if rel in written and not cut_short:
                a = after.get(rel)
                if a is None or a[0] != "f":
                    out.append(("markers:symlink-not-replaced", "regular file at " + rel,
                                "absent" if a is None else body(a), {"dangling": t not in before and t != "tg"}))
    return out, new_last


def step(world, ev, last):
    """One transition on the live tree: before-snapshot is world.cur (aged)."""
    before = world.cur
    obs = apply_event(world, ev)
    after = world.snapshot()
    if "!" in ev and world.fired is None:
        raise ValueError("fault point of %r does not exist (the event performs %d mutations)" % (ev, world.mutations))
    viols, new_last = judge(ev, before, after, obs, last, world.n, world.fired)
    return obs, after, viols, new_last


def case_features(init, trace, mode):
    f = {"id_dir_present": init["dirs"][0] in (1, 2), "event": trace[-1].split(":")[0].split("!")[0]}
    if mode != "runs":
        f["mode"] = mode
    return f


def run_linear(init, trace, mode="runs"):
    """Executes a trace from its initial state on a fresh directory, no snapshots. mode "runs": every event is a
    client run of its own (module state reset before each); "one-process": one reset at the start only.
    Returns (violations of the last event, final canonical state)."""
    s = seam()
    root = tmp.mkscratch("c17r")
    try:
        w = World(root, init["dirs"], init.get("order", "fwd"))
        w.sync(initial_ents(init))
        w.snapshot()
        w.age()
        s.ctr = 0
        s.hidden.reset()
        w.point()
        last = None
        viols = []
        for ev in trace:
            if not enabled(w, ev):
                raise ValueError("event %r is not enabled in %r / %r" % (ev, init, trace))
            if mode == "runs":
                s.hidden.reset()
                w.point()
            _, _, viols, last = step(w, ev, last)
            w.age()
        return viols, canon(tuple(init["dirs"]), w.cur, last)
    finally:
        shutil.rmtree(root, ignore_errors=True)


def check_case(case):
    """Re-executes a trace from its initial state on a fresh directory. Judges the last event."""
    init, trace = case["init"], case["trace"]
    mode = case.get("mode", "runs")
    viols, _ = run_linear(init, trace, mode)
    feats = case_features(init, trace, mode)
    return [(c, e, o, dict(feats, **f)) for (c, e, o, f) in viols]


def replay(case):
    return [{"clause": c, "case": case, "expected": e, "observed": o, "features": f}
            for (c, e, o, f) in check_case(case)]


# ---- initial states and units --------------------------------------------------------------------

def _usable(dirs):
    return [d in (1, 2) for d in dirs]


def full_layouts(dirs, exotic):
    """Every combination of the base kinds at every marker location of a usable directory; with `exotic`, also every
    layout with exactly one exotic kind."""
    n = len(dirs)
    locs = [(m, i) for i in range(n) for m in ("reg", "unreg") if _usable(dirs)[i]]
    out = []

    def emit(kinds):
        lay = {"reg": ["absent"] * n, "unreg": ["absent"] * n}
        for (m, i), k in zip(locs, kinds):
            lay[m][i] = k
        out.append((lay["reg"], lay["unreg"]))
    for kinds in itertools.product(MK_BASE, repeat=len(locs)):
        emit(kinds)
    if exotic:
        for j in range(len(locs)):
            for x in MK_EXOTIC:
                for kinds in itertools.product(MK_BASE, repeat=len(locs) - 1):
                    emit(kinds[:j] + (x,) + kinds[j:])
    return out


def reduced_layouts(dirs):
    """Every pair of base kinds uniformly in all usable directories and in one directory only; one exotic kind at one
    location with everything else absent."""
    n = len(dirs)
    us = _usable(dirs)
    out = []

    def add(reg, unreg):
        if (reg, unreg) not in out:
            out.append((reg, unreg))
    for r in MK_BASE:
        for u in MK_BASE:
            add([r if us[i] else "absent" for i in range(n)], [u if us[i] else "absent" for i in range(n)])
            for j in range(n):
                if us[j]:
                    add([r if i == j else "absent" for i in range(n)], [u if i == j else "absent" for i in range(n)])
    for j in range(n):
        if us[j]:
            for x in MK_EXOTIC:
                add([x if i == j else "absent" for i in range(n)], ["absent"] * n)
                add(["absent"] * n, [x if i == j else "absent" for i in range(n)])
    return out


def fault_layouts(dirs, dirloc):
    """Fault part, two-directory shapes: every combination of the base kinds at every marker location of a usable
    directory; with dirloc = [location, kind] that location holds a real directory instead."""
    n = len(dirs)
    locs = [(m, i) for i in range(n) for m in ("reg", "unreg") if _usable(dirs)[i]]
    fixed = None
    if dirloc is not None:
        fixed = (dirloc[0][:-1], int(dirloc[0][-1]) - 1)
        if fixed not in locs:
            return []
        locs.remove(fixed)
    out = []
    for kinds in itertools.product(MK_BASE, repeat=len(locs)):
        lay = {"reg": ["absent"] * n, "unreg": ["absent"] * n}
        for (m, i), k in zip(locs, kinds):
            lay[m][i] = k
        if fixed is not None:
            lay[fixed[0]][fixed[1]] = dirloc[1]
        out.append((lay["reg"], lay["unreg"]))
    return out


def fault_kinds(unit, tier):
    if unit["part"] != "fault":
        return []
    return list(FAULT_KINDS) if tier == "thorough" else QUICK_FAULTS


def fault_unit_spec(unit, tier):
    dirs = tuple(unit["dirs"])
    n = len(dirs)
    extra = {}
    if unit.get("order", "fwd") != "fwd":
        extra["order"] = unit["order"]
    if unit["layouts"] == "full":
        layouts = fault_layouts(dirs, unit.get("dirloc"))
    else:
        layouts = reduced_layouts(dirs)
        for j in range(n):
            if _usable(dirs)[j]:
                for x in MK_DIR:           # a real directory at one location, everything else absent
                    layouts.append((["absent"] * n, [x if i == j else "absent" for i in range(n)]))
                    layouts.append(([x if i == j else "absent" for i in range(n)], ["absent"] * n))
    # the marker functions never touch the identifier file: it is absent here, the identifier events are not part of
    # these units (the main / extra components have them)
    inits = [dict({"dirs": list(dirs), "mid": "absent", "reg": r, "unreg": u}, **extra) for (r, u) in layouts]
    return inits, list(MARKER_EVENTS)


def unit_spec(unit, tier):
    """(initial states, events) of a closure unit."""
    if unit["part"] == "fault":
        return fault_unit_spec(unit, tier)
    dirs = tuple(unit["dirs"])
    order = unit.get("order", "fwd")
    n = len(dirs)
    thorough = tier == "thorough"
    # spelling classes are cheap and every one of them is a branch of the code: quick has ALL identifier kinds and ALL
    # answers in the components with at most one usable directory; only the two-directory product is thinned out
    small = sum(1 for d in dirs if d in (1, 2)) <= 1
    answers = list(ANSWERS) if (thorough or (small and unit["part"] == "main")) else QUICK_ANSWERS
    if unit["part"] == "main":
        mids = list(MID_KINDS) if (thorough or small) else QUICK_MID
        mids = [m for m in mids if m.startswith("link") == (unit["mid_class"] == "link")]
        layouts = full_layouts(dirs, exotic=thorough)
        events = id_events(answers) + MARKER_EVENTS + plant_events(n)
        extra = {}
    else:
        mids = list(MID_KINDS) if thorough else SMALL_MID
        layouts = reduced_layouts(dirs)
        events = id_events(answers if thorough else ["none", "B"]) + MARKER_EVENTS + PLANT_MID
        extra = {"ids": 1}
        if order != "fwd":
            extra["order"] = order
    if dirs[0] not in (1, 2):
        mids = [m for m in mids if m == "absent"]
    inits = [dict({"dirs": list(dirs), "mid": m, "reg": r, "unreg": u}, **extra) for m in mids for (r, u) in layouts]
    return inits, events


OP_EVENTS = ["read:none", "read:B", "new:none", "new:B"] + MARKER_EVENTS
OP_INITS = [{"dirs": [1, 1], "mid": m, "reg": [k, k], "unreg": [k, k]}
            for m in ("absent", "A", "legacy", "empty") for k in ("absent", "file")]


def _alphabet_is_sharp():
    """Vacuity guard on the alphabet itself: two identifier kinds (or answers) that the canonical form cannot tell apart
    are one kind, and the enumeration would silently cover less than it claims."""
    seen = {}
    for name, (ment, idt) in MID_KINDS.items():
        content = ment[1] if (ment is not None and ment[0] == "f") else idt
        key = (None if ment is None else ment[0], None if ment is None or ment[0] == "f" else ment[1],
               None if content is None else id_class(content, None))
        if key in seen:
            raise RuntimeError("C17 alphabet: identifier kinds %r and %r coincide" % (seen[key], name))
        seen[key] = name
    if len(set(map(repr, ANSWERS.values()))) != len(ANSWERS):
        raise RuntimeError("C17 alphabet: two subscription answers coincide")
    for name in ("upper", "mixed", "LEGACY", "upper_nl"):
        c = MID_KINDS[name][0][1]
        if c == c.lower() or forced_v4(c) != UA:
            raise RuntimeError("C17 alphabet: kind %r is not a case variant of the identifier" % name)


def units(tier, seed):
    _alphabet_is_sharp()
    us = []
    for dirs in MAIN_DIRS:
        for cls in ("nolink", "link"):
            u = {"part": "main", "dirs": list(dirs), "mid_class": cls, "seed": seed}
            if unit_spec(u, tier)[0]:
                us.append(u)
    for dirs, order in EXTRA:
        us.append({"part": "extra", "dirs": list(dirs), "order": order, "seed": seed})
    for dirs in FAULT_DIRS:
        us.append({"part": "fault", "dirs": list(dirs), "layouts": "full", "seed": seed})
        for i, d in enumerate(dirs):
            if d in (1, 2):
                for m in ("reg", "unreg"):
                    for x in (MK_DIR if tier == "thorough" else MK_DIR[:1]):
                        us.append({"part": "fault", "dirs": list(dirs), "layouts": "full",
                                   "dirloc": ["%s%d" % (m, i + 1), x], "seed": seed})
    for dirs, order in EXTRA:
        us.append({"part": "fault", "dirs": list(dirs), "order": order, "layouts": "reduced", "seed": seed})
    for i in range(len(OP_INITS)):
        for ev in OP_EVENTS:
            us.append({"part": "one-process", "init": i, "first": ev, "max_len": 3 if tier == "quick" else 5})
    return us


def unit_weight(u):
    if u["part"] == "fault":
        return 60 * len(u["dirs"]) if u["layouts"] == "reduced" else (150 if "dirloc" not in u else 40)
    if u["part"] == "main":
        return 4 ** (2 * sum(1 for d in u["dirs"] if d)) * (3 if u["mid_class"] == "nolink" else 2)
    if u["part"] == "extra":
        return 40 * len(u["dirs"])
    return 5


# ---- the search ------------------------------------------------------------------------------------

def _note(res, text):
    if len(res.notes) < 5:
        res.notes.append(text[:400])


def run_unit(unit, tier):
    if unit["part"] == "one-process":
        return run_one_process(unit)
    res = Result()
    dirs = tuple(unit["dirs"])
    order = unit.get("order", "fwd")
    split_mid = unit["part"] == "main"
    comp = unit.get("mid_class", "any")
    fkinds = fault_kinds(unit, tier)
    if unit["part"] == "fault" and unit["layouts"] == "full":
        # a directory at a marker location cannot be removed or created by the code: where one sits never changes
        split_mid = "dirs-at-markers"
        comp = marker_path(unit["dirloc"][0]) if unit.get("dirloc") else "none"
    rng = random.Random(unit.get("seed", 0))
    inits, events = unit_spec(unit, tier)
    rng.shuffle(inits)                               # the seed permutes visiting order only
    rng.shuffle(events)
    s = seam()
    root = tmp.mkscratch("c17")
    try:
        w = World(root, dirs, order)
        w.snapshot()
        seen = {}
        nodes = []            # index -> (ents (aged), last, ctr, parent index, event, depth, init)
        frontier = collections.deque()
        for init in inits:
            ents = initial_ents(init)
            k = canon(dirs, ents, None)
            if k in seen:
                continue
            seen[k] = len(nodes)
            nodes.append((ents, None, 0, -1, None, 0, init))
            frontier.append(len(nodes) - 1)
        res.stat("initial_states", len(nodes))

        def trace_of(i):
            evs = []
            while nodes[i][3] >= 0:
                evs.append(nodes[i][4])
                i = nodes[i][3]
            return nodes[i][6], evs[::-1]

        outside = 0
        max_depth = 0
        succ = collections.defaultdict(set)       # the explored graph, for the depth-from-pristine statistic
        res.stat("events_that_raised", 0)
        res.stat("reads_that_exit_on_unparsable_file", 0)
        res.stat("violations_not_reproduced_from_scratch", 0)
        res.stat("histories_not_re_reaching_their_state", 0)
        while frontier:
            if len(nodes) > MAX_STATES:
                res.exhaustive = False
                res.notes.append("state cap %d reached in unit %r: not closed" % (MAX_STATES, unit))
                break
            i = frontier.popleft()
            ents, last, ctr, _, _, depth, _ = nodes[i]
            max_depth = max(max_depth, depth)
            todo = collections.deque(events)
            while todo:
                ev = todo.popleft()
                w.sync(ents)
                if not enabled(w, ev):
                    continue
                s.ctr = ctr
                s.hidden.reset()                  # a new client run
                w.point()
                try:
                    obs, after, viols, new_last = step(w, ev, last)
                except ValueError as ex:
                    if "!" not in ev:
                        raise
                    # the un-faulted run of this event performed more mutations than this run reached
                    res.stat("fault_points_not_reached")
                    res.exhaustive = False
                    _note(res, "%s in state of %r" % (ex, trace_of(i),))
                    w.snapshot()
                    continue
                res.transitions += 1
                if fkinds and ev in MARKER_EVENTS:
                    # every file-system mutation the un-faulted event performed in this state is a fault point
                    res.maxi("max_mutations_of_one_event", w.mutations)
                    for k in range(1, w.mutations + 1):
                        for kind in fkinds:
                            todo.append("%s!%d!%s" % (ev, k, kind))
                if "!" in ev:
                    res.stat("faulted_transitions")
                    res.stat("faulted_ended_" + obs[0])
                ag = aged(after)
                touched = sorted(set(os.path.basename(r) for r in set(ag) | set(ents) if ag.get(r) != ents.get(r)))
                okind = obs[0]
                if okind == "id":
                    okind = "id-first" if last is None else ("id-same" if obs[1] == last else "id-other")
                elif okind == "raised":
                    okind = "raised:" + obs[1]
                    res.stat("events_that_raised")
                elif okind == "exit":
                    res.stat("reads_that_exit_on_unparsable_file")
                elif okind == "killed":
                    res.stat("events_killed")
                evname = ev.split(":")[0]
                if "!" in ev:
                    evname = "%s!%s" % (evname.split("!")[0], evname.split("!")[2])
                res.case(nontrivial=(bool(touched) or obs[0] == "id" or w.fired is not None),
                         outcome="%s/%s/%s" % (evname, okind, ",".join(touched) or "-"))
                if viols:
                    init, tr = trace_of(i)
                    case = {"init": init, "trace": tr + [ev]}
                    confirmed = check_case(case)          # from scratch, on a fresh directory, no restore
                    w.point()
                    got = set(c for (c, _, _, _) in confirmed)
                    for (c, e, o, f) in viols:
                        if c not in got:
                            # never reported: only what re-executes from scratch counts (an unsound merge or state the
                            # harness does not own can cost a detection, not produce an alarm)
                            res.stat("violations_not_reproduced_from_scratch")
                            res.exhaustive = False
                            _note(res, "%s seen in the search did not reproduce from scratch: %r" % (c, case))
                    for (c, e, o, f) in confirmed:
                        res.violation(c, case, e, o, f)
                k = canon(dirs, after, new_last)
                if k not in seen:
                    seen[k] = len(nodes)
                    nodes.append((ag, new_last, s.ctr, i, ev, depth + 1, None))
                    frontier.append(len(nodes) - 1)
                    if component(after, split_mid) != comp:
                        outside += 1
                succ[i].add(seen[k])
        closed = not frontier
        res.states = len(nodes)
        res.maxi("max_depth", max_depth)
        res.stat("states_outside_unit_component", outside)
        res.stat("closed_units", 1 if closed else 0)

        # how long a history has to be when the directories start out empty (graph search on the explored
        # transition graph, nothing is executed): shows that the closure contains real multi-step histories
        # even when every layout is also an initial state
        prist = [j for j, nd in enumerate(nodes) if nd[6] is not None and nd[6]["mid"] == "absent"
                 and set(nd[6]["reg"] + nd[6]["unreg"]) == {"absent"}]
        if prist:
            dist = dict((j, 0) for j in prist)
            dq = collections.deque(prist)
            while dq:
                a = dq.popleft()
                for b in succ.get(a, ()):
                    if b not in dist:
                        dist[b] = dist[a] + 1
                        dq.append(b)
            res.stat("states_reachable_from_empty_directories", len(dist))
            res.maxi("max_depth_from_empty_directories", max(dist.values()))

        # every state's shortest history is executed once more end-to-end on a fresh directory (no snapshots):
        # it must arrive in the same canonical state. This validates snapshot/restore and counts complete traces.
        for i in range(len(nodes)):
            init, tr = trace_of(i)
            _, k = run_linear(init, tr)
            res.traces += 1
            if seen.get(k) != i:
                res.stat("histories_not_re_reaching_their_state")
                res.exhaustive = False
                _note(res, "history %r / %r does not re-reach its state (behaviour depends on something the harness "
                           "does not own)" % (init, tr))
        res.samples.append({"unit": unit, "states": len(nodes), "transitions": res.transitions,
                            "max_depth": max_depth, "closed": closed})
    finally:
        shutil.rmtree(root, ignore_errors=True)
    return res


def run_one_process(unit):
    """Every event sequence up to max_len from one initial state, executed in one process with the module state of the
    code under test reset only at the start of the sequence (one client run calls these helpers many times; anything
    it keeps in memory must not break the statement either). A sequence is judged at its last event: its prefixes are
    sequences of their own."""
    res = Result()
    init = OP_INITS[unit["init"]]
    s = seam()
    root = tmp.mkscratch("c17p")
    try:
        w = World(root, init["dirs"])
        w.snapshot()
        ents0 = initial_ents(init)
        firsts = [unit["first"]] if unit["first"] else OP_EVENTS
        for length in range(1, unit["max_len"] + 1):
            for first in firsts:
                for rest in itertools.product(OP_EVENTS, repeat=length - 1):
                    seq = [first] + list(rest)
                    w.sync(ents0)
                    s.ctr = 0
                    s.hidden.reset()
                    w.point()
                    last = None
                    for ev in seq:
                        obs, after, viols, last = step(w, ev, last)
                        w.age()
                    res.traces += 1
                    res.case(nontrivial=(len(seq) >= 2), outcome="one-process/%s/%s" % (seq[-1].split(":")[0], obs[0]))
                    if viols:
                        case = {"init": init, "trace": seq, "mode": "one-process"}
                        confirmed = check_case(case)
                        w.point()
                        got = set(c for (c, _, _, _) in confirmed)
                        for (c, e, o, f) in viols:
                            if c not in got:
                                res.stat("violations_not_reproduced_from_scratch")
                                res.exhaustive = False
                                _note(res, "%s in a one-process sequence did not reproduce: %r" % (c, case))
                        for (c, e, o, f) in confirmed:
                            res.violation(c, case, e, o, f)
        res.maxi("one_process_max_len", unit["max_len"])
        res.stat("one_process_sequences", res.traces)
    finally:
        shutil.rmtree(root, ignore_errors=True)
    return res


TECHNIQUE = ("explicit-state breadth-first search to closure over a real configuration directory tree, transitions = "
             "the real marker / identifier functions, identifier-value symmetry reduction, shortest-trace counterexamples; "
             "plus all short in-process event sequences; plus fault enumeration (fail / die at the k-th file-system mutation, "
             "every k) of the marker operations inside the same search")
LEVEL_TEXT = ("Every history of reads, regenerations (each with every enumerated subscription-identity answer), registrations, "
              "unregistrations, marker deletions and symlink plantings is covered, from every enumerated initial layout of the "
              "configuration directories, because the search runs until no new canonical state appears; the invariants are "
              "evaluated on every transition of the real code on a real tmpfs tree. Register / unregister / marker deletion "
              "are additionally cut short at every one of their file-system mutations (error return or death of the run), "
              "and the state left behind - in which the two markers must still not exist together - is searched on from.")
LEVEL_NOTE = ("Trusted: the identifier-value abstraction (argued in canon(), violations are re-executed concretely), the finite "
              "alphabet of initial file kinds, directory shapes and symlink targets, uuid4 / certificate reader / clock replaced "
              "below the code under test; no concurrency between client runs, no other file kinds (FIFOs; directories only "
              "in the fault units) at marker or identifier locations; one fault per operation, injected at the os / open "
              "level of the interpreter (a mutation made by a child process or a C extension would not be seen); a kill still "
              "unwinds Python frames (finally-blocks run but can no longer mutate the tree); faults inside identifier "
              "reads / regenerations are not enumerated.")
