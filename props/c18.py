"""C18 - a playbook's signed digest covers everything but the declared dynamic parts.

Bounded exhaustive enumeration of plays (typed JSON encodings -> fresh dict / OrderedDict objects, or YAML text
loaded through the module's own ruamel loader) executed against the real
exclude_dynamic_elements / serialize_play / hash_play / verify_play / verify.

  O1  injectivity on the universe U: plays with equal digests must have structurally equal remainders
      (the remainder is computed by a reference model of the exclusion rule, harness/c18_model.py).
      The grouping is global: every unit serialises all of U in a first pass and keeps the plays whose
      crc32(serialised text) lands in its bucket, so colliding plays always meet in one unit.
  O2  crafted edits: every contiguous substring (containing a delimiter) of the serialised text of a 2-entry
      play is used as key / value of smaller plays; those must get a different digest.
  O3  edits of excluded elements keep the digest; exclusion requests, missing list / signature / vars through
      verify_play with GPG stubbed; revocation through verify with the revocation file stubbed.
      Look-alikes of the two labels (hostsx, vars_files, xvars, Hosts, host ...) are present in the play as real
      elements: a request around one is an error (verify_play and exclude_dynamic_elements), the only legitimate
      requests (/hosts/<it>, /vars/<it>) remove that child alone, and editing the top-level look-alike moves the digest.
"""
import base64
import binascii
import collections
import contextlib
import copy
import datetime
import hashlib
import itertools
import shutil
import tempfile
import zlib

from mc.result import Result
from harness import c18_model as m
from harness.c18_model import S, I, B, Z, F, L, M, EXC, SIG

ID = "C18"
LEVEL = "exploration"
RULE = ("all plays of the universe U (mappings over sharp key / scalar alphabets, lists and mappings of <= 2 plus all "
        "trees of <= 5 (6) nodes with <= 4 children, 3 and 4 top-level entries, a zoo of falsy / boundary / control-"
        "character / look-alike scalars in every position and in all ordered pairs, nesting depth <= 2 quick / 3 "
        "thorough, built as dict / OrderedDict and, for a sub-universe, loaded from YAML text) grouped globally by the "
        "real digest; all substrings of the serialised text of 2- and 3-entry plays re-used as key or value; all "
        "exclusion paths of <= 3 labels in canonical and deviating syntax x play shapes x signature states; all "
        "revocation lists x signature states; every prefix / suffix / infix / truncation / case variant of the two dynamic "
        "labels (58 neighbour names) present in the play as a top-level element and as a child of hosts and of vars x 13 "
        "request paths around it x 3 positions in the exclusion list x 3 values, each with its twin play in which only "
        "the neighbour element is edited; ordered pairs of equal-but-differently-typed scalars serialised one after "
        "the other in one fresh interpreter; all edit sequences of <= 3 steps on one long-lived play object. "
        "An O1 play is non-trivial when another, structurally different play of U has the same serialised text after "
        "deleting quotes, backslashes and brackets (only quoting / typing / nesting marks separate the two); an O2 "
        "play when its text has exactly the length of the attacked text; an exclusion / verify case when the "
        "reference model demands an error (for a neighbour case: the request names an existing element that is not "
        "hosts / vars or a direct child of them); a history when it has more than one step")
ASSUMPTIONS = ["GPG is out of scope: gnupg.GPG is replaced by a stub that declares a signature valid iff it equals "
               "'SIG:'+hex(digest); pkgutil.get_data is stubbed for revoked_playbooks.yaml only",
               "the YAML spelling of a scalar (quoting style, 0x1 vs 1) and the container class (dict vs CommentedMap) "
               "are not part of a play's content; equality of content is equality of the typed encoding",
               "Python >= 3.12 code path (PlaybookSerializer); the str(play) path of older interpreters is not exercised",
               "bounded: no counterexample inside the stated universe, nothing more"]
BOUNDS = {"quick": {"depth": 2, "list_len": 2, "mapping_len": 2, "top_level_entries": 2, "scalars": 21, "keys": 16,
                    "quote_alphabet_string_len": 3, "quote_alphabet_pair_len": 2, "o1_buckets": 6, "o2_entries": 3,
                    "o2_skeletons": "4 (2 entries) / 8 (3 entries)", "yaml_chunk": 12, "exclusion_strings": 38,
                    "exclusion_path_labels": 3, "revocation_lists": 14, "signature_kinds": 6, "zoo_scalars": 109,
                    "zoo_pair_scalars": 53, "tree_nodes": 5, "tree_children": 4, "entries_more": "3 and 4",
                    "history_steps": 3, "equal_scalar_ordered_pairs": 18, "label_neighbours": 58,
                    "neighbour_request_paths": 13, "neighbour_list_positions": 3,
                    "neighbour_values": "3 as dict, 1 (mapping) loaded from block YAML",
                    "neighbour_containers": "dict, yaml-block"},
          "thorough": {"depth": 3, "list_len": 2, "mapping_len": 2, "top_level_entries": 2, "scalars": 21, "keys": 16,
                       "quote_alphabet_string_len": 4, "quote_alphabet_pair_len": 2, "o1_buckets": 16, "o2_entries": 3,
                       "o2_skeletons": "4 (2 entries) / 8 (3 entries)", "yaml_chunk": 12, "exclusion_strings": 38,
                       "exclusion_path_labels": 3, "revocation_lists": 14, "signature_kinds": 6, "zoo_scalars": 109,
                       "zoo_pair_scalars": 109, "tree_nodes": 6, "tree_children": 4, "entries_more": "3 and 4",
                       "history_steps": 3, "equal_scalar_ordered_pairs": 18, "label_neighbours": 58,
                       "neighbour_request_paths": 13, "neighbour_list_positions": 3, "neighbour_values": 3,
                       "neighbour_containers": "dict, OrderedDict, yaml-flow, yaml-block"}}
CAP_S = {"quick": 200, "thorough": 1800}

STD = "/hosts,/vars/insights_signature"
SIG0 = "c2ln"

_PV = None


def pv():
    global _PV
    if _PV is None:
        import logging
        logging.disable(logging.CRITICAL)
        import insights.client.apps.ansible.playbook_verifier as mod
        _PV = mod
    return _PV


# =================================================================================================
# universe
# =================================================================================================

STRS = ["a", "1", "True", "None", "a'b", 'a"b', "a'\"b", "a\\b", "a\\'b", "a\nb", "a\\nb", "a\u200bb", "a\\u200bb",
        "[]", "ordereddict()", "1.0"]
SC0 = [S(t) for t in STRS] + [I(1), B(True), B(False), Z, F(1.0)]
R0 = [S("a"), S("1"), I(1), B(True), Z, S("a'b"), S("a\\b"), F(1.0)]
RR0 = [S("a"), I(1), S("a'b"), Z]
KEYS = [S("k"), S("name"), S("tasks"), S("1"), S("True"), S("None"), S("1.0"), S("a'b"), S("a, b"), S("k')"),
        S("a\\b"), S("a\nb"), I(1), B(True), Z, F(1.0)]
KEYS_R = [S("k"), S("1"), I(1), S("a'b"), Z]
KP = [p for p in itertools.permutations([S("k"), S("1"), I(1)], 2)]
KP2 = [(S("k"), S("1")), (S("1"), S("k"))]
R1 = [S("a"), I(1), Z, L(), L(S("a")), L(I(1)), L(S("a"), S("a")), M(), M((S("k"), S("a"))), M((S("1"), S("a"))),
      M((I(1), S("a"))), M((S("k"), S("a")), (S("1"), I(1)))]
R2_EXTRA = [L(L()), L(L(S("a"))), M((S("k"), L(S("a")))), M((S("k"), M((S("k"), S("a"))))), L(M((S("k"), S("a"))))]


def _nested(e):
    return e[0] in ("l", "m")


def new1():
    out = [L()] + [L(v) for v in SC0] + [L(v, w) for v in R0 for w in R0]
    out += [M()] + [M((k, v)) for k in KEYS_R for v in R0]
    out += [M((k1, v1), (k2, v2)) for (k1, k2) in KP for v1 in RR0 for v2 in RR0]
    return out


def _depth(e):
    if e[0] == "l":
        return 1 + max([_depth(v) for v in e[1]] or [0])
    if e[0] == "m":
        return 1 + max([_depth(v) for _, v in e[1]] or [0])
    return 0


def new2():
    # every value of depth exactly 2 built from: one element of depth exactly 1 (all of them), or two elements of R1
    out = [L(v) for v in new1()]
    pairs = [(v, w) for v in R1 for w in R1 if _nested(v) or _nested(w)]
    out += [L(v, w) for v, w in pairs]
    out += [M((k, v)) for k in KEYS_R for v in new1()]
    out += [M((k1, v), (k2, w)) for (k1, k2) in KP2 for v, w in pairs]
    return out


def new3():
    r2 = R1 + R2_EXTRA
    out = [L(v) for v in new2()]
    pairs = [(v, w) for v in r2 for w in r2 if _depth(v) == 2 or _depth(w) == 2]
    out += [L(v, w) for v, w in pairs]
    out += [M((k, v)) for k in KEYS_R for v in new2()]
    out += [M((k1, v), (k2, w)) for (k1, k2) in KP2 for v, w in pairs]
    return out


def wrap(entries, exc=STD, hosts=S("all"), sig=S(SIG0), vbefore=(), vafter=(), pos="after"):
    """Play encoding: hosts / vars plus `entries` (list of (key, value) encodings)."""
    vpairs = list(vbefore)
    if exc is not None:
        vpairs.append((S(EXC), exc if isinstance(exc, list) else S(exc)))
    if sig is not None:
        vpairs.append((S(SIG), sig))
    vpairs += list(vafter)
    head = [] if hosts is None else [(S("hosts"), hosts)]
    v = [(S("vars"), M(*vpairs))]
    entries = list(entries)
    if pos == "after":
        pairs = head + v + entries
    elif pos == "before":
        pairs = entries + head + v
    else:
        pairs = head + entries + v
    return M(*pairs)


def key_pairs():
    return [(a, b) for a in KEYS for b in KEYS if m.dict_key_id(a) != m.dict_key_id(b)]


X_EXCL = [STD, "/vars", "/hosts,/vars", "/hosts,/vars/x,/vars/insights_signature", "/vars/insights_signature",
          "/hosts,/vars/insights_signature,/vars/insights_signature_exclude"]
X_HOSTS = [S("all"), S("h2"), L(S("a"), S("b")), M((S("x"), I(1)))]
X_SIGS = [S(SIG0), S("c2lnMg==")]
X_VARX = [None, S("v"), M((S("y"), I(1)))]


def x_groups():
    """O3 (a): (base remainder entries, exclusion) -> all fillings of the excluded / dynamic elements."""
    for v in R1:
        for e in X_EXCL:
            plays = []
            for h in X_HOSTS:
                for sg in X_SIGS:
                    for vx in X_VARX:
                        va = [] if vx is None else [(S("x"), vx)]
                        plays.append(wrap([(S("k"), v)], exc=e, hosts=h, sig=sg, vafter=va))
            yield plays


def universe(tier):
    """Yields (family, play encoding); deterministic; no repetitions (families may overlap: the first occurrence
    counts); every play has reference status 'ok'."""
    seen = set()
    for fam, pe in itertools.chain(_universe_raw(tier), zoo_universe(tier), more_universe(tier), glue_universe(tier)):
        key = hashlib.blake2b(m.fp(pe).encode(), digest_size=10).digest()
        if key in seen:
            continue
        seen.add(key)
        yield fam, pe


def _universe_raw(tier):
    v1 = SC0 + new1()
    n2 = new2()
    thorough = tier == "thorough"
    # A: one entry
    for k in KEYS:
        for v in v1:
            yield "A1", wrap([(k, v)])
    for k in (KEYS if thorough else KEYS_R):
        for v in n2:
            yield "A2", wrap([(k, v)])
    if thorough:
        for k in KEYS_R:
            for v in new3():
                yield "A3", wrap([(k, v)])
    # B: two entries
    for (k1, k2) in key_pairs():
        for a in R0:
            for b in R0:
                yield "B1", wrap([(k1, a), (k2, b)])
    if thorough:
        for (k1, k2) in [(S("k"), S("1")), (S("1"), S("k")), (I(1), S("k"))]:
            for a in v1:
                for b in v1:
                    if a in R0 and b in R0:
                        continue                 # already in B1
                    yield "B2", wrap([(k1, a), (k2, b)])
    else:
        for (k1, k2) in KP:
            for a in R1:
                for b in R1:
                    if a in R0 and b in R0:
                        continue
                    yield "B2", wrap([(k1, a), (k2, b)])
    # C: content of vars outside the excluded child; position of the entry relative to hosts / vars
    for v in v1:
        yield "C1", wrap([], vbefore=[(S("x"), v)])
        yield "C1", wrap([], vafter=[(S("x"), v)])
        yield "C2", wrap([(S("k"), v)], pos="before")
        yield "C2", wrap([(S("k"), v)], pos="between")
    # X: fillings of the excluded elements (also checked for digest invariance in their own units)
    for item in string_universe(tier):
        yield item
    already = set(m.fp(wrap([(S("k"), v)])) for v in R1)          # the default filling is family A1
    for plays in x_groups():
        for p in plays:
            if m.ref_exclusion(p)[0] == "ok" and m.fp(p) not in already:
                yield "X", p


STR_SIGMA = ["a", "'", '"', "\\", "\n", "n", ",", " "]


def sigma_strings(max_len):
    out = [""]
    level = [""]
    for _ in range(max_len):
        level = [x + c for x in level for c in STR_SIGMA]
        out += level
    return out


def string_universe(tier):
    """Strings over the serialiser's own quoting / escaping symbols as value, as list elements and as key."""
    long_ = sigma_strings(4 if tier == "thorough" else 3)
    short = sigma_strings(2)
    for t in long_:
        if t != "a":                                  # {k: 'a'} is in family A1
            yield "S1", wrap([(S("k"), S(t))])
    for a in short:
        for b in short:
            if (a, b) != ("a", "a"):                  # [a, a] is in family A1
                yield "S2", wrap([(S("k"), L(S(a), S(b)))])
    for t in long_:
        yield "S3", wrap([(S(t), S("x"))])


# ---- audit round (mc/LESSONS.md): falsy / boundary scalars, glue characters, more than two of a thing, all small shapes

def zoo_scalars(full=True):
    """Scalars chosen for the serialiser's blind spots: falsy values, equal-but-differently-typed numbers, the text a
    non-string renders as, every C0 control character, the zero-width / line-separator / BOM characters inside and
    outside the escape table, format-string look-alikes, and the non-string scalars the YAML loader can produce."""
    ctrl = [chr(c) for c in list(range(0, 32)) + [0x7f]]
    uni = [chr(c) for c in (0x85, 0xa0, 0x200b, 0x200c, 0x200d, 0x200e, 0x2028, 0x2029, 0xfeff, 0x2060)]
    if not full:
        ctrl = ["\x00", "\t", "\n", "\r", "\x1b", "\x7f"]
        uni = [chr(c) for c in (0x200b, 0x200e, 0x2028, 0xfeff)]
    strs = ["", "0", "1", "-1", "10", "True", "False", "None", "0.0", "-0.0", "1.0", "inf", "-inf", "nan", "1e+16",
            str(2 ** 64), "[]", "ordereddict()", "()", "b'hi'", "b''", "2001-12-14", "2001-12-14 00:00:00",
            "{key}", "{value}", "{0}", "{}", "%s", "\\n", "\\t", "\\r", "\\x00", "\\u200b", "\\u2028", "\\ufeff",
            "\\\\", "'", '"', "\\'", " ", "a ", " a"]
    ints = [0, 1, -1, 10, 2 ** 63, 2 ** 64, 10 ** 30]
    floats = [0.0, -0.0, 1.0, 0.1, 1e16, 1e22, 1e-07, float("inf"), float("-inf"), float("nan")]
    if not full:                  # the scalars used in ALL ordered pairs (quick)
        drop = {"10", "-1", "1e+16", str(2 ** 64), "b''", "2001-12-14 00:00:00", "{value}", "{0}", "{}", "\\t", "\\r",
                "\\u2028", "\\ufeff", "a ", " a", "()"}
        strs = [t for t in strs if t not in drop]
        ints = [0, 1, -1, 2 ** 64]
        floats = [0.0, -0.0, 1.0, 1e16, float("inf"), float("nan")]
    out = [S(t) for t in strs] + [S(c) for c in ctrl + uni]
    out += [I(n) for n in ints] + [B(True), B(False), Z]
    out += [F(x) for x in floats]
    out += [["o", "bytes", b"hi".hex()], ["o", "bytes", ""], ["o", "date", "2001-12-14"],
            ["o", "datetime", "2001-12-14T00:00:00"]]
    return out


def zoo_universe(tier):
    every = zoo_scalars(True)
    core = every if tier == "thorough" else zoo_scalars(False)
    for z in every:
        yield "Z1", wrap([(S("k"), z)])
        yield "Z1", wrap([(S("k"), L(z))])
        yield "Z1", wrap([(z, S("x"))])
        yield "Z1", wrap([(S("k"), M((z, S("x"))))])
    for a in core:
        for b in core:
            yield "Z2", wrap([(S("k"), L(a, b))])
            yield "Z3", wrap([(S("k"), M((a, b)))])
            if m.dict_key_id(a) != m.dict_key_id(b):
                yield "Z4", wrap([(a, S("x")), (b, S("y"))])


TKEYS = [S("k"), S("1"), I(1), S("a'b")]
_TREES = {}


def _forests(n, width):
    if n == 0:
        return [[]]
    out = []
    if width == 0:
        return out
    for first in range(1, n + 1):
        for t in trees_exact(first):
            for rest in _forests(n - first, width - 1):
                out.append([t] + rest)
    return out


def trees_exact(n):
    """ALL values with exactly n nodes: leaves a / 1 / [] / {}, inner nodes lists or mappings of <= 4 children."""
    if n not in _TREES:
        if n == 1:
            _TREES[n] = [S("a"), I(1), L(), M()]
        else:
            res = []
            for f in _forests(n - 1, 4):
                res.append(L(*f))
                res.append(M(*[(TKEYS[i], c) for i, c in enumerate(f)]))
            _TREES[n] = res
    return _TREES[n]


def more_universe(tier):
    """More than two of a thing: 3 and 4 list elements / mapping entries / top-level entries, all small trees."""
    for n in range(1, (7 if tier == "thorough" else 6)):
        for t in trees_exact(n):
            yield "T", wrap([(S("k"), t)])
    for keys in itertools.permutations(TKEYS, 3):
        for vs in itertools.product(RR0, repeat=3):
            yield "N3", wrap(list(zip(keys, vs)))
            yield "N3", wrap([(S("k"), M(*zip(keys, vs)))])
    for vs in itertools.product(R0, repeat=3):
        yield "N3", wrap([(S("k"), L(*vs))])
    for vs in itertools.product(RR0, repeat=4):
        yield "N4", wrap([(S("k"), L(*vs))])
        yield "N4", wrap(list(zip(TKEYS, vs)))


# ---- round 3: control characters glued to hex / octal digits; plays with shared containers ---------------

HEXD = "0123456789abcdefABCDEF"
CTRL = [chr(c) for c in list(range(0x00, 0x20)) + [0x7f] + list(range(0x80, 0xa0))]


def glue_strings(full=True):
    """Strings a sloppy (unpadded / not self-delimiting) escape could merge: every single character of the first 256
    (all two-digit codes), every control character followed by a hex digit, control characters followed by two
    digits (octal and \\u style) together with the single characters those could be mistaken for."""
    out = [chr(c) for c in range(256)]
    if full:
        out += [c + h for c in CTRL for h in HEXD]
        two = ["00", "0a", "a0", "ff", "FF", "11", "17", "71", "77", "01", "10", "07", "70"]
        out += [c + t for c in CTRL for t in two]
        out += [chr(int("%x%s" % (ord(c), t), 16)) for c in CTRL for t in two]
        out += [chr(int("%o%s" % (ord(c), t), 8)) for c in CTRL[:32] for t in ("11", "17", "71", "77", "01", "10", "07", "70")
                if int("%o%s" % (ord(c), t), 8) < 0x110000]
    else:
        out += [c + h for c in CTRL[:33] for h in HEXD[:16]]
    seen, uniq = set(), []
    for t in out:
        if t not in seen and not (0xd800 <= ord(t[0]) <= 0xdfff):
            seen.add(t)
            uniq.append(t)
    return uniq


def glue_universe(tier):
    for t in glue_strings(True):
        yield "G", wrap([(S("k"), S(t))])
    for t in glue_strings(tier == "thorough"):
        yield "G", wrap([(S(t), S("x"))])
        yield "G", wrap([(S("k"), L(S(t)))])


def DEF(name, v):
    return ["def", name, v]


def REF(name):
    return ["ref", name]


A_VALUES = [M((S("c"), I(1))), L(I(1))]
B_VALUES = [M((S("c"), I(2))), L(I(2)), M((S("c"), I(1))), M((S("i"), REF("A"))), L(REF("A"))]
SITES = ["A", "B", "copyA", "copyB", "scalar"]
PLACEMENTS = ["value", "in-list", "in-mapping"]
DEF_PLACES = ["top", "vars"]


def shared_plays(def_place, placement, mode):
    """ALL plays with two named containers A and B (B possibly containing A) and one or two later sites that hold the
    same object as A, the same object as B, an equal copy of either, or a scalar.  Retargeting / re-nesting an alias
    and expanding it are edits between members of this set."""
    done = set()
    for va in A_VALUES:
        for vb in B_VALUES:
            copies = {"copyA": va, "copyB": m.expand(M((S("a"), DEF("A", va)), (S("b"), vb)))[1][1][1], "scalar": I(0),
                      "A": REF("A"), "B": REF("B")}
            for s1 in SITES:
                for s2 in [None] + SITES:
                    def put(site):
                        v = copies[site]
                        if placement == "in-list":
                            return L(v)
                        if placement == "in-mapping":
                            return M((S("r"), v))
                        return v
                    defs = [(S("a"), DEF("A", va)), (S("b"), DEF("B", vb))]
                    sites = [(S("s1"), put(s1))] + ([] if s2 is None else [(S("s2"), put(s2))])
                    if def_place == "top":
                        se = wrap(defs + sites)
                    else:
                        se = wrap(sites, vafter=defs, pos="after")
                    key = m.fp(se)
                    if key not in done:                      # equal copies of A and B give the same play twice
                        done.add(key)
                        yield {"senc": se, "mode": mode}


def container_of(idx):
    return "odict" if idx % 2 else "dict"


# ---- YAML sub-universe ---------------------------------------------------------------------------

def yaml_values():
    return SC0 + new1()


def yaml_chunks(tier):
    """Work split: a chunk = a few values x every key (so that keys differing only in type / quoting meet)."""
    n = len(yaml_values())
    step = BOUNDS[tier]["yaml_chunk"]
    return [(lo, min(n, lo + step)) for lo in range(0, n, step)]


def yaml_plays(lo, hi):
    vs = yaml_values()[lo:hi]
    for v in vs:
        for k in KEYS:
            yield {"enc": wrap([(k, v)]), "mode": "yaml-flow"}
        for k in KEYS_R:
            yield {"enc": wrap([(k, v)]), "mode": "yaml-block"}


def yaml_pair_plays(shard, of):
    kp = key_pairs()
    for i, (k1, k2) in enumerate(kp):
        if i % of != shard:
            continue
        for v in RR0:
            yield {"enc": wrap([(k1, v), (k2, v)]), "mode": "yaml-flow"}


_HEAD = ("- hosts: all\n  vars:\n    insights_signature_exclude: /hosts,/vars/insights_signature\n"
         "    insights_signature: c2ln\n")
YAML_SPECIAL_VALUES = ["1", "0x1", "0o1", "+1", '"1"', "'1'", "1.0", "1e0", '"1.0"', "true", "True", '"True"', '"true"',
                       "null", "~", "", '"None"', '"null"', '""', ".inf", '"inf"', ".nan", '"nan"', "-0.0", "0.0",
                       "2001-12-14", '"2001-12-14"', "!!binary aGk=", "\"b'hi'\"", "hi", '"hi"', "|\n    a\n", '"a\\n"',
                       ">\n    a\n", "[a]", "&A [a]", "{}", "[]", '"{}"', '"[]"', "{a: 1}", '"ordereddict([(\'a\', 1)])"']
YAML_SPECIAL_KEYS = ["1", '"1"', "0x1", "true", '"True"', '"true"', "null", '"None"', "~", '"~"', "1.0", '"1.0"', "1e0",
                     "? [a, b]\n  ", "\"('a', 'b')\"", "2001-12-14", '"2001-12-14"', "'a''b'", '"a\'b"']


def yaml_special_texts():
    for v in YAML_SPECIAL_VALUES:
        yield _HEAD + "  k: " + v + "\n"
    for k in YAML_SPECIAL_KEYS:
        yield _HEAD + "  " + k + ": x\n"
    yield _HEAD + "  k: &A [a]\n  j: *A\n"
    yield _HEAD + "  k: [a]\n  j: [a]\n"
    yield _HEAD + "  k: &M {x: 1}\n  j:\n    <<: *M\n    y: 2\n"
    yield _HEAD + "  k: {x: 1}\n  j: {y: 2, x: 1}\n"
    yield _HEAD + '  "1": a\n  1: b\n'
    yield _HEAD + '  1: a\n  "1": b\n'
    yield _HEAD + "  \"1', 'a'), ('1\": b\n"
    # audit round: sets, timestamps in several spellings, mapping / empty / null keys
    for v in ["!!set {a, b}", "!!set {b, a}", "!!set {}", "\"set(odict_keys(['a', 'b']))\"", "2001-12-14T21:59:43.10-05:00",
              "2001-12-15T02:59:43.1Z", "2001-12-14 21:59:43", "\"2001-12-14 21:59:43\"", "2001-12-14T21:59:43",
              "0", "-0", "0x0", "false", "0.0", "-0.0", "\"0\"", "1_000", "1000", "0b1", "1:30", "\"1:30\"", "0.1", ".1"]:
        yield _HEAD + "  k: " + v + "\n"
    for k in ["\"\"", "? \n  ", "? {a: 1}\n  ", "\"{'a': 1}\"", "\"ordereddict([('a', 1)])\"", "0", "false", "\"0\"", "0.0",
              "!!binary aGk=", "\"b'hi'\""]:
        yield _HEAD + "  " + k + ": x\n"
    # anchored scalars (the loader wraps them), tagged scalars (Ansible's !unsafe / !vault), fractional timestamps
    for v in ["&a true", "&a 1", "true", "&a false", "&a 0", "&a text", "text", "&a 1.5", "1.5", "&a ~", "&a 0x10", "16",
              "!unsafe x", "x", "!unsafe 1", "!other x", "!unsafe \"x\"", "!unsafe \"'x'\"", "!unsafe ''",
              "2001-12-15T02:59:43.1Z", "2001-12-15T02:59:43.2Z", "2001-12-15T02:59:43Z", "2001-12-15 02:59:43.1",
              "!!pairs [a: 1]", "!!omap [a: 1]", "[[a, 1]]"]:
        yield _HEAD + "  k: " + v + "\n"
    yield _HEAD + "  k: a\n  j: z\n"
    yield _HEAD + "  k: !unsafe \"'a'), ('j', 'z'\"\n"
    # a node shared through an anchor between an excluded place and a signed place (audit: aliasing)
    for x in ("1", "2"):
        yield ("- hosts: &H {x: %s, y: 2}\n  vars:\n    insights_signature_exclude: /hosts/x,/vars/insights_signature\n"
               "    insights_signature: c2ln\n  k: *H\n" % x)
        yield ("- hosts: all\n  vars: &V\n    insights_signature_exclude: /hosts,/vars/insights_signature,/vars/x\n"
               "    insights_signature: c2ln\n    x: %s\n  tasks:\n    - debug:\n      vars: *V\n" % x)
        yield ("- hosts: &H {x: %s, y: 2}\n  vars:\n    insights_signature_exclude: /hosts,/vars/insights_signature\n"
               "    insights_signature: c2ln\n  k: *H\n" % x)


def yaml_zoo_plays():
    for c in range(0x10):                      # glue pairs through the loader as well
        for h in "0bf":
            yield {"enc": wrap([(S("k"), S(chr(c) + h))]), "mode": "yaml-flow"}
            yield {"enc": wrap([(S(chr(c) + h), S("x"))]), "mode": "yaml-flow"}
    for z in zoo_scalars(True):
        for style in ("yaml-flow", "yaml-block"):
            yield {"enc": wrap([(S("k"), z)]), "mode": style}
            yield {"enc": wrap([(z, S("x"))]), "mode": style}


# ---- O2 bases ---------------------------------------------------------------------------------

O2_KEYS = {"quick": [(S("a"), S("b")), (S("a'b"), S("b")), (I(1), S("b")), (S("a"), S("a b"))],
           "thorough": [(S("a"), S("b")), (S("a'b"), S("b")), (I(1), S("b")), (S("a"), S("a b")), (S("a"), Z),
                        (S('a"b'), S("b")), (S("a\\b"), S("b"))]}
O2_VALUES = {"quick": [S("x"), S("a'b"), I(1), B(True), Z, L(S("x")), M((S("c"), S("x")))],
             "thorough": [S("x"), S("a'b"), I(1), B(True), Z, L(S("x")), M((S("c"), S("x"))), L(), S("1"), S('a"b'),
                          S("a'\"b"), S("a\\b"), F(1.0), M(), L(S("x"), I(1))]}
DELIMS = set("'\",()[]")


def o2_bases(tier):
    out = []
    for (k1, k2) in O2_KEYS[tier]:
        for a in O2_VALUES[tier]:
            for b in O2_VALUES[tier]:
                out.append([(k1, a), (k2, b)])
    return out


def o2_bases3(tier):
    """Three-entry plays attacked the same way (audit: more than two of a thing)."""
    vals = [S("x"), I(1), L(S("x"))] if tier == "quick" else [S("x"), I(1), L(S("x")), S("a'b"), Z]
    return [[(S("a"), a), (S("b"), b), (S("c"), c)] for a in vals for b in vals for c in vals]


def o2_crafted(entries, s):
    """The smaller plays that use the substring s as a key or as a value."""
    if len(entries) == 2:
        (k1, v1), (k2, v2) = entries
        return [[(S(s), v2)], [(S(s), v1)], [(k1, S(s))], [(k1, L(S(s)))]]
    (k1, v1), (k2, v2), (k3, v3) = entries
    return [[(S(s), v3)], [(S(s), v2)], [(k1, S(s))], [(k1, L(S(s)))],
            [(k1, v1), (S(s), v3)], [(S(s), v2), (k3, v3)], [(k1, S(s)), (k3, v3)], [(k1, v1), (k2, S(s))]]


def o2_wrap(entries):
    return wrap(entries, exc="/vars", hosts=None, pos="before")


# ---- exclusion family --------------------------------------------------------------------------

E_ALL = [STD, "/vars", "/hosts", "/vars/x", "/tasks", "/vars/x/y", "", "/hosts,", "hosts//x", "/hosts,/hosts", "/name",
         "/k/x", "/tasks/hosts", "/tasks/vars", "/x/vars", "/x/hosts", "vars/insights_signature", "/hosts/",
         "/vars/insights_signature_exclude", "/hosts/x", "/hosts,/tasks", "/tasks,/hosts", ",/hosts", "/", "//",
         "/hosts/x/", "/vars,/vars/x", "/hosts/x/y", "/vars/insights_signature/x", "/hosts,/vars/x,/vars/insights_signature",
         "/Hosts", "/hostsx", "/k"]
E_ODD = [None, I(1), Z, L(S("/hosts"))]          # missing list, ill-typed lists
SIG_STATES = ["present", "missing", "null", "empty"]


def excl_shapes():
    tasks_map = M((S("hosts"), S("h")), (S("vars"), M((S("a"), I(1)))), (S("x"), I(1)))
    return [
        ("plain", dict(hosts=S("all"), entries=[(S("name"), S("n")), (S("tasks"), L(M((S("k"), S("a")))))], vx=None)),
        ("rich", dict(hosts=M((S("x"), I(1)), (S("y"), I(2))), vx=M((S("y"), I(1))),
                      entries=[(S("name"), S("n")), (S("tasks"), tasks_map), (S("k"), M((S("x"), I(1)))),
                               (S("x"), M((S("hosts"), I(1)), (S("vars"), I(2))))])),
        ("nohosts", dict(hosts=None, entries=[(S("tasks"), L())], vx=S("v"))),
    ]


def excl_plays():
    """Yields play encodings of the exclusion family (any reference status)."""
    for name, sh in excl_shapes():
        for e in E_ALL + E_ODD:
            for ss in SIG_STATES:
                sig = {"present": S(SIG0), "missing": None, "null": Z, "empty": S("")}[ss]
                va = [] if sh["vx"] is None else [(S("x"), sh["vx"])]
                yield wrap(sh["entries"], exc=e, hosts=sh["hosts"], sig=sig, vafter=va, pos="between")
    base = [(S("hosts"), S("all")), (S("tasks"), L())]
    yield M(*base)                                                             # no vars at all
    yield M(*(base + [(S("vars"), S("x insights_signature_exclude insights_signature"))]))
    yield M(*(base + [(S("vars"), L(S(EXC), S(SIG)))]))
    yield M(*(base + [(S("vars"), Z)]))
    yield M(*(base + [(S("vars"), M())]))
    yield M()


EX_COMPS = ["hosts", "vars", "x", "tasks", "insights_signature"]


def excl_gen_strings(full=True):
    """ALL request paths of <= 3 labels over EX_COMPS, in canonical and in deviating syntax (no leading slash, trailing
    slash, doubled slash, blanks), alone, doubled, and before / after the usual signature exclusion."""
    paths = []
    for n in (1, 2, 3):
        paths += ["/" + "/".join(c) for c in itertools.product(EX_COMPS, repeat=n)]
    out = list(paths)
    for q in paths:
        out += [q + "," + q, "/vars/insights_signature," + q, q + ",/vars/insights_signature"]
    if full:
        for q in paths:
            out += [q[1:], q + "/", q.replace("/", "//", 1) if q.count("/") > 1 else "/" + q, " " + q, q + " ",
                    q.replace("/", "/ ", 1), q + "\n", "/vars/insights_signature, " + q]
    seen, uniq = set(E_ALL), []
    for e in out:
        if e not in seen:
            seen.add(e)
            uniq.append(e)
    return uniq


def excl_gen_plays(full=True):
    sh = dict(excl_shapes())["rich"]
    for e in excl_gen_strings(full):
        yield wrap(sh["entries"], exc=e, hosts=sh["hosts"], sig=S(SIG0), vafter=[(S("x"), sh["vx"])], pos="between")
    # the same requests against a play whose hosts is a plain string and whose vars has no x
    sh = dict(excl_shapes())["plain"]
    for e in excl_gen_strings(False)[:155 + 0]:
        yield wrap(sh["entries"], exc=e, hosts=sh["hosts"], sig=S(SIG0), pos="between")


# ---- round 5: NEIGHBOURS of the two dynamic labels, present in the play ---------------------------------
#
# "Only 'hosts' and 'vars', or a direct child of them, can be excluded": the label comparison is exact.  A request whose
# first component merely starts with / ends with / contains / is a case variant or a truncation of a label is "any other
# exclusion request" -> verification error; and the element it names is signed content.  The requests only separate an
# exact comparison from a sloppy one when the play really HAS an element of that name (otherwise both answer with an
# error), so every play of this family carries the neighbour as a top-level key (and as a child of hosts and of vars,
# where excluding it IS legitimate and must remove that child and nothing else).

def near_labels():
    out = []
    for lab in m.LABELS:
        out += [lab + "x", lab + "_files", lab + "_prompt", lab + "file", lab + "2", lab + "_", lab + "-", lab + ".",
                lab + "$", lab + "s", lab + lab,                                     # the label is a proper PREFIX
                "x" + lab, "_" + lab, "2" + lab, "." + lab, "^" + lab, "my_" + lab,   # ... a proper SUFFIX
                "x" + lab + "x", "_" + lab + "_",                                    # ... an inner substring
                lab[:-1], lab[1:], lab[:1], lab[:-1] + "x",                          # truncations / one letter off
                lab.capitalize(), lab.upper(), lab[:-1] + lab[-1].upper(), lab[0] + lab[1:].upper()]   # case variants
    out += ["_".join(m.LABELS), "".join(reversed(m.LABELS)), "|".join(m.LABELS), "(?:%s)" % "|".join(m.LABELS)]
    # self-check (mc/LESSONS.md 10): no neighbour is a label, none is one after stripping blanks (the model is lenient
    # about blanks), none contains the separators of the request syntax, all are distinct
    assert len(set(out)) == len(out), out
    for n in out:
        assert n not in m.LABELS and n.strip() == n and "/" not in n and "," not in n and n not in ("x", "y"), n
    return out


NEAR_VALUES = [(M((S("x"), I(1)), (S("hosts"), I(2)), (S("vars"), I(3))), M((S("x"), I(2)), (S("hosts"), I(2)), (S("vars"), I(3)))),
               (S("a"), S("b")),
               (L(S("a")), L(S("b")))]              # (value as signed, value after the edit)
NEAR_CONTEXTS = ["%s", STD + ",%s", "%s," + STD]


def near_requests(n):
    """Request paths around the neighbour n: itself, a child of it, a label as its child, deeper, and as a direct child
    of each label (the only legitimate ones); with and without the leading slash, trailing / doubled slashes."""
    return ["/" + n, n, "/" + n + "/", "//" + n,
            "/" + n + "/x", n + "/x", "/" + n + "/x/", "/" + n + "//x",
            "/" + n + "/hosts", "/" + n + "/vars", "/" + n + "/x/y",
            "/hosts/" + n, "/vars/" + n]


NEAR_SHARDS = {"dict": 1, "odict": 1, "yaml-flow": 4, "yaml-block": 4}


def near_modes(tier):
    return ["dict", "yaml-block"] if tier == "quick" else ["dict", "odict", "yaml-flow", "yaml-block"]


def near_value_indices(tier, mode):
    """quick: all three neighbour values as plain dicts, the mapping value only through the YAML loader."""
    return list(range(len(NEAR_VALUES))) if tier != "quick" or mode == "dict" else [0]


def near_cases(mode, vi):
    signed, edited = NEAR_VALUES[vi]
    for n in near_labels():
        def play(v, req):
            return wrap([(S("name"), S("n")), (S(n), v), (S("tasks"), L(M((S("k"), S("a")))))], exc=req,
                        hosts=M((S("x"), I(1)), (S(n), I(2))), sig=S(SIG0),
                        vafter=[(S("x"), M((S("y"), I(1)))), (S(n), I(1))], pos="between")
        for q in near_requests(n):
            for ctx in NEAR_CONTEXTS:
                req = ctx % q
                yield {"kind": "near", "neighbour": n, "play": {"enc": play(signed, req), "mode": mode},
                       "twin": {"enc": play(edited, req), "mode": mode}}


# ---- verify family -----------------------------------------------------------------------------

def verify_plays():
    return [wrap([(S("name"), S("n")), (S("tasks"), L(M((S("k"), S("a")))))]),
            wrap([(S("tasks"), L(S("a'b"), I(1)))], exc="/hosts,/vars"),
            wrap([(S("k"), M((S("1"), B(True))))], hosts=None, exc="/vars/insights_signature"),
            wrap([(S("k"), S("a\\nb"))], pos="before")]


REVOCATION_KINDS = ["empty", "self", "other", "other+self", "self-uppercase", "self-last-nibble-changed", "self+other",
                    "self-mixed-case", "self+self", "other+other2+self", "other+self-uppercase+other2",
                    # the statement is silent about these three: observed, nothing demanded
                    "malformed-yaml", "list-signature-invalid", "no-revoked-key"]
SIG_KINDS = ["valid", "foreign", "garbage", "empty", "not-base64", "bad-padding"]


# =================================================================================================
# execution against the real code
# =================================================================================================

def build(src):
    """src -> (python object handed to the real code, abstract play encoding)."""
    if "yamltext" in src:
        obj = pv().load_playbook_yaml(src["yamltext"])[0]
        return obj, m.enc(obj)
    if "senc" in src:                          # encoding with shared containers (def / ref nodes)
        se = src["senc"]
        pe = m.expand(se)
        mode = src.get("mode", "dict")
        if mode == "dict":
            return m.dec_shared(se, dict), pe
        if mode == "odict":
            return m.dec_shared(se, collections.OrderedDict), pe
        text = m.to_yaml(se, "flow" if mode == "yaml-flow" else "block")
        obj = pv().load_playbook_yaml(text)[0]
        if m.fp_obj(obj) != m.fp(pe):
            raise RuntimeError("harness: YAML rendering does not load back to the intended play: %r" % (text,))
        if _has_ref(se) and not shares_containers(obj):
            raise RuntimeError("harness: aliases did not load as shared objects: %r" % (text,))
        return obj, pe
    pe = src["enc"]
    mode = src.get("mode", "dict")
    if mode == "dict":
        return m.dec(pe, dict), pe
    if mode == "odict":
        return m.dec(pe, collections.OrderedDict), pe
    text = m.to_yaml(pe, "flow" if mode == "yaml-flow" else "block")
    obj = pv().load_playbook_yaml(text)[0]
    if m.fp_obj(obj) != m.fp(pe):
        raise RuntimeError("harness: YAML rendering does not load back to the intended play: %r -> %r" % (text, m.enc(obj)))
    return obj, pe


def pipeline(obj):
    """The digest as verify_play computes it, GPG not involved.
    -> ('ok', digest_bytes, text_bytes, remainder_obj) | ('exc', class_name, message)"""
    p = pv()
    try:
        rem = p.exclude_dynamic_elements(obj)
        text = p.serialize_play(rem)
        return ("ok", p.hash_play(text), text, rem)
    except p.PlaybookVerificationError as ex:
        return ("exc", "PlaybookVerificationError", str(ex))
    except Exception as ex:
        return ("exc", type(ex).__name__, str(ex)[:200])


def shares_containers(obj):
    """True when some list / mapping object is reachable along two paths (YAML anchors and aliases load that way)."""
    seen = set()

    def walk(x):
        if isinstance(x, (dict, list)):
            if id(x) in seen:
                return True
            seen.add(id(x))
            return any(walk(v) for v in (list(x.values()) if isinstance(x, dict) else x))
        return False
    return walk(obj)


ALIASING = {"aliasing": "excluded_child_of_shared_node"}
_PLAIN_TYPES = (str, int, float, bool, type(None), bytes, datetime.date, datetime.datetime)


def _leaf_suspicious(x):
    """A loader-produced leaf that does not serialise like the plain value with the same content (decided by
    running the real serialiser on both), or that has no plain equivalent at all."""
    if type(x) in _PLAIN_TYPES:
        return False
    try:
        plain = m.dec(m.enc(x))
    except ValueError:
        return True
    p = pv()
    try:
        return p.serialize_play(copy.deepcopy(x)) != p.serialize_play(plain)
    except Exception:
        return True


def _walk_leaves(x, fn):
    if isinstance(x, dict):
        for k, v in x.items():
            _walk_leaves(k, fn)
            _walk_leaves(v, fn)
    elif isinstance(x, list):
        for v in x:
            _walk_leaves(v, fn)
    else:
        fn(x)


def suspicious_leaves(obj):
    names = set()
    _walk_leaves(obj, lambda x: names.add(type(x).__name__) if _leaf_suspicious(x) else None)
    return sorted(names)


def sanitised(x):
    """The same play as plain, unshared containers with every suspicious leaf replaced by a harmless string token
    that is injective in the leaf's type and content."""
    if isinstance(x, dict):
        return dict((sanitised(k), sanitised(v)) for k, v in x.items())
    if isinstance(x, list):
        return [sanitised(v) for v in x]
    if _leaf_suspicious(x):
        return "X" + m.fp(m.enc(x)).encode("utf-8").hex() + type(x).__name__
    return x


def loader_cause_pair(objs):
    """features when a digest collision disappears once the suspicious loader leaves are made harmless"""
    names = sorted(set(suspicious_leaves(objs[0])) | set(suspicious_leaves(objs[1])))
    if not names:
        return None
    try:
        ra, rb = pipeline(sanitised(objs[0])), pipeline(sanitised(objs[1]))
    except Exception:
        return None
    if ra[0] == "ok" and rb[0] == "ok" and ra[1] != rb[1]:
        return {"loader_object": "+".join(names)}
    return None


def loader_cause_single(obj):
    """features when the exclusion is exact once the suspicious loader leaves are made harmless"""
    names = suspicious_leaves(obj)
    if not names:
        return None
    try:
        plain = sanitised(obj)
        run = pipeline(plain)
        ref = m.ref_exclusion(m.enc(plain))
    except Exception:
        return None
    if run[0] == "ok" and ref[0] in ("ok", "either") and m.fp_obj(run[3]) == m.fp(ref[2]):
        return {"loader_object": "+".join(names)}
    return None


def _unshared_twin_ok(pe, ref):
    """The same content without shared nodes is excluded correctly -> the sharing is the cause."""
    try:
        twin = pipeline(m.dec(pe, dict))
    except ValueError:
        return False
    return twin[0] == "ok" and m.fp_obj(twin[3]) == m.fp(ref[2])


def _has_ref(e):
    if e[0] == "ref":
        return True
    if e[0] == "def":
        return _has_ref(e[2])
    if e[0] == "l":
        return any(_has_ref(v) for v in e[1])
    if e[0] == "m":
        return any(_has_ref(v) for _, v in e[1])
    return False


def _unshared_twins_differ(encs):
    try:
        a, b = pipeline(m.dec(encs[0], dict)), pipeline(m.dec(encs[1], dict))
    except ValueError:
        return False
    return a[0] == "ok" and b[0] == "ok" and a[1] != b[1]


def digest_of_remainder(rem_e):
    p = pv()
    return p.hash_play(p.serialize_play(m.dec(rem_e, dict)))


class _Verdict(object):
    def __init__(self, valid):
        self.valid = valid
        self.status = "signature valid" if valid else "signature bad"

    def __bool__(self):
        return self.valid
    __nonzero__ = __bool__


class _Count(object):
    count = 1


class _FakeGPG(object):
    calls = []

    def __init__(self, *a, **kw):
        pass

    def import_keys(self, data):
        return _Count()

    def verify_data(self, filename, data):
        with open(filename, "rb") as fh:
            sig = fh.read()
        ok = sig == b"SIG:" + binascii.hexlify(bytes(data))
        _FakeGPG.calls.append((sig, bytes(data), ok))
        return _Verdict(ok)


class _FakeGnupg(object):
    GPG = _FakeGPG


class _FakePkgutil(object):
    def __init__(self, real, revocation):
        self._real, self._rev = real, revocation

    def get_data(self, package, resource):
        if resource == "revoked_playbooks.yaml" and self._rev is not None:
            return self._rev
        return self._real.get_data(package, resource)


@contextlib.contextmanager
def stubbed(revocation=None):
    """GPG and the revocation resource replaced; temp files of execute_verification go to /dev/shm."""
    from harness.tmp import mkscratch
    p = pv()
    saved = (p.gnupg, p.pkgutil, tempfile.tempdir)
    d = mkscratch("c18")
    p.gnupg = _FakeGnupg
    p.pkgutil = _FakePkgutil(saved[1], revocation)
    tempfile.tempdir = d
    del _FakeGPG.calls[:]
    try:
        yield
    finally:
        p.gnupg, p.pkgutil, tempfile.tempdir = saved
        shutil.rmtree(d, ignore_errors=True)


def sig_for(digest):
    return base64.b64encode(b"SIG:" + binascii.hexlify(digest)).decode()


def with_sig(pe, sig_e):
    out = ["m", []]
    for k, v in pe[1]:
        if k == S("vars") and v[0] == "m":
            v = ["m", [[k2, (sig_e if k2 == S(SIG) else v2)] for k2, v2 in v[1]]]
        out[1].append([k, v])
    return out


# ---- checkers (exploration and replay share them) ----------------------------------------------------

# ---- histories (audit: process-global state, long-lived objects) ------------------------------------

EQ_GROUPS = [[I(1), B(True), F(1.0)], [I(0), B(False), F(0.0), F(-0.0)]]


def order_cases():
    """Every ordered pair of scalars that are equal (==, same hash) but of different type / spelling."""
    for g in EQ_GROUPS:
        for a, b in itertools.permutations(g, 2):
            yield {"kind": "order", "first": a, "second": b}


def order_pairs():
    return [(a, b) for g in EQ_GROUPS for a, b in itertools.combinations(g, 2)]


def _scalar_plays(z):
    return [wrap([(S("k"), z)]), wrap([(z, S("x"))]), wrap([(S("k"), L(z, S("a")))]), wrap([(S("k"), M((z, z)))])]


_CHILD = ("import sys, json\n"
          "sys.path[:0] = [%r, %r]\n"
          "from props import c18\n"
          "from harness import c18_model as m\n"
          "out = []\n"
          "for pe in json.load(sys.stdin):\n"
          "    r = c18.pipeline(m.dec(pe, dict))\n"
          "    out.append(r[1].hex() if r[0] == 'ok' else 'EXC:' + r[1])\n"
          "print(json.dumps(out))\n")


def fresh_process_digests(plays):
    """Digests of the plays, computed one after the other in ONE fresh interpreter."""
    import json
    import os
    import subprocess
    import sys
    here = os.path.dirname(os.path.dirname(os.path.abspath(__file__)))
    env = dict(os.environ, PYTHONHASHSEED="0")
    pr = subprocess.run([sys.executable, "-c", _CHILD % (here, os.environ.get("VERIF_REPO", "/repo"))],
                        input=json.dumps(plays).encode(), stdout=subprocess.PIPE, stderr=subprocess.PIPE, env=env,
                        timeout=300)
    if pr.returncode != 0:
        raise RuntimeError("harness: child interpreter failed: %s" % pr.stderr.decode("utf-8", "replace")[-1500:])
    return json.loads(pr.stdout.decode())


def check_order(case, after=None, alone=None):
    """The digest of a play must not depend on what was serialised before it in the same process."""
    a, b = case["first"], case["second"]
    pa, pb = _scalar_plays(a), _scalar_plays(b)
    if after is None:
        after = fresh_process_digests(pa + pb)[len(pa):]      # b's plays after a's plays
    if alone is None:
        alone = fresh_process_digests(pb)                     # b's plays first in a fresh process
    here = []
    for pe in pb:                                             # and in this (long-running) worker process
        r = pipeline(m.dec(pe, dict))
        here.append(r[1].hex() if r[0] == "ok" else "EXC:" + r[1])
    out = []
    feats = {"history": "equal_scalar_serialised_before", "types": "%s_after_%s" % (m._tn(b), m._tn(a))}
    if after != alone:
        out.append(("digest:independent-of-history", {"fresh process": alone}, {"after the equal scalar": after}, feats))
    if here != alone:
        out.append(("digest:independent-of-history", {"fresh process": alone}, {"long-running process": here},
                    {"history": "long_running_process", "types": m._tn(b)}))
    return out


H_STEPS = [["set", ["hosts"], S("h2")], ["set", ["hosts"], L(S("a"))], ["set", ["k"], S("b")],
           ["set", ["k"], L(S("a"), I(1))], ["set", ["vars", "x"], I(2)], ["set", ["vars", SIG], S("c2lnMg==")],
           ["del", ["hosts"]], ["set", ["k"], M()]]
# not demanded (the statement is silent): that the returned remainder shares no objects with the play - an
# implementation may copy only along the deleted paths
H_BASES = [wrap([(S("k"), L(S("a")))], vafter=[(S("x"), I(1))]),
           wrap([(S("k"), M((S("c"), S("a"))))], exc="/vars", vafter=[(S("x"), M((S("y"), I(1))))], pos="before")]


def hist_cases(tier):
    for bi in range(len(H_BASES)):
        for n in (1, 2, 3):
            for steps in itertools.product(range(len(H_STEPS)), repeat=n):
                yield {"kind": "hist", "base": bi, "steps": list(steps)}


def _enc_apply(pe, step):
    op = step[0]
    if op == "poke-remainder":
        return pe
    path = step[1]
    out = json_copy(pe)
    cur = out
    for c in path[:-1]:
        cur = m.m_get(cur, c)
        if cur is None or cur[0] != "m":
            return out
    key = S(path[-1])
    for idx, (k, _) in enumerate(cur[1]):
        if k == key:
            if op == "del":
                del cur[1][idx]
            else:
                cur[1][idx][1] = step[2]
            return out
    if op == "set":
        cur[1].append([key, step[2]])
    return out


def json_copy(e):
    import json
    return json.loads(json.dumps(e))


def _obj_apply(obj, step):
    op = step[0]
    if op == "poke-remainder":
        try:
            rem = pv().exclude_dynamic_elements(obj)
        except Exception:
            return

        def scribble(x):
            if isinstance(x, dict):
                for v in list(x.values()):
                    scribble(v)
                x["__poked__"] = 1
            elif isinstance(x, list):
                for v in x:
                    scribble(v)
                x.append("__poked__")
        scribble(rem)
        return
    cur = obj
    for c in step[1][:-1]:
        cur = cur.get(c) if isinstance(cur, dict) else None
        if not isinstance(cur, dict):
            return
    if op == "del":
        cur.pop(step[1][-1], None)
    else:
        cur[step[1][-1]] = m.dec(step[2], dict)


def _outcome(run):
    return run[1].hex() if run[0] == "ok" else "EXC:" + run[1]


def check_hist(case):
    """One long-lived play object is edited in place and digested after every step; each digest must be the one a
    freshly built play with the same content gets (no state carried by the object, the module or the result)."""
    pe = H_BASES[case["base"]]
    obj = m.dec(pe, dict)
    pipeline(obj)
    out = []
    for n, si in enumerate(case["steps"]):
        step = H_STEPS[si]
        _obj_apply(obj, step)
        pe = _enc_apply(pe, step)
        # (if the real code itself modified the long-lived play while digesting it, the next comparison shows it)
        got, want = _outcome(pipeline(obj)), _outcome(pipeline(m.dec(pe, dict)))
        if got != want:
            out.append(("digest:independent-of-history", {"fresh play with the same content": want},
                        {"long-lived play after step %d" % n: got}, {"history": "long_lived_play_object"}))
            break
    return out


def check_pair(case):
    """Two plays: equal digests <=> structurally equal reference remainders."""
    out = []
    objs, encs, runs, refs = [], [], [], []
    for side in ("p", "q"):
        o, pe = build(case[side])
        objs.append(o)
        encs.append(pe)
        refs.append(m.ref_exclusion(pe))
        runs.append(pipeline(o))
    for side, ref, run in zip(("p", "q"), refs, runs):
        if ref[0] == "ok" and run[0] != "ok":
            out.append(("exclusion:valid-request-accepted", "digest computed", "%s: %s" % (run[1], run[2]),
                        {"raised": run[1], "rule": ref[1]}))
    if out or refs[0][0] != "ok" or refs[1][0] != "ok":
        return out
    fa, fb = m.fp(refs[0][2]), m.fp(refs[1][2])
    da, db = runs[0][1], runs[1][1]
    if fa != fb and da == db:
        shared = shares_containers(objs[0]) or shares_containers(objs[1])
        twins_ok = shared and _unshared_twin_ok(encs[0], refs[0]) and _unshared_twin_ok(encs[1], refs[1])
        lost = any(m.fp_obj(run[3]) != m.fp(ref[2]) for run, ref in zip(runs, refs))
        if twins_ok and lost:
            # the known family, narrowly: the exclusion itself removed more than the excluded element (a child deleted
            # from a node that is shared with a signed place)
            feats = dict(ALIASING)
        elif twins_ok and _unshared_twins_differ(encs):
            # the exclusion was exact, the plays without sharing are told apart: the way a shared container is
            # written is the cause (e.g. a later occurrence written as a marker that does not name its target)
            feats = {"aliasing": "shared_container_occurrence_not_covered"}
        else:
            feats = loader_cause_pair(objs) or m.classify_collision(refs[0][2], refs[1][2], digest_of_remainder)
        out.append(("digest:injective", "different digests: the signed parts differ",
                    {"digest": da.hex(), "serialised": runs[0][2].decode("utf-8", "replace")[:400]}, feats))
    if fa == fb and da != db:
        out.append(("digest:unchanged-by-excluded-edits", "equal digests: only excluded elements differ",
                    {"p": runs[0][2].decode("utf-8", "replace")[:300], "q": runs[1][2].decode("utf-8", "replace")[:300]},
                    {"change": "excluded_elements_only"}))
    return out


def check_single(src, obj=None, pe=None, run=None):
    """One play of U: the real remainder equals the reference remainder; the digest is repeatable."""
    out = []
    if obj is None:
        obj, pe = build(src)
    ref = m.ref_exclusion(pe)
    if run is None:
        run = pipeline(obj)
    if ref[0] == "ok":
        if run[0] != "ok":
            return [("exclusion:valid-request-accepted", "digest computed", "%s: %s" % (run[1], run[2]),
                     {"raised": run[1], "rule": ref[1]})]
        got = m.fp_obj(run[3])
        if got != m.fp(ref[2]):
            feats = {"rule": ref[1]}
            if shares_containers(obj) and _unshared_twin_ok(pe, ref):
                feats = dict(ALIASING)
            else:
                feats = loader_cause_single(obj) or feats
            out.append(("exclusion:remainder-matches-reference", ref[2], m.enc(run[3]), feats))
        again = pipeline(obj)
        if again[0] != "ok" or again[1] != run[1]:
            out.append(("digest:repeatable", run[1].hex(), again[1].hex() if again[0] == "ok" else "%s: %s" % again[1:3],
                        {"second_call": again[0] if again[0] != "ok" else "different"}))
    return out


def check_excl(case):
    """Exclusion request / missing parts through verify_play with GPG stubbed."""
    p = pv()
    out = []
    obj, pe = build(case["play"])
    status, rule, rem = m.ref_exclusion(pe)
    with stubbed():
        try:
            res = p.verify_play(obj)
            got = ("returned", res[1])
        except p.PlaybookVerificationError as ex:
            got = ("PlaybookVerificationError", str(ex))
        except Exception as ex:
            got = (type(ex).__name__, str(ex)[:200])
        calls = list(_FakeGPG.calls)
    obs = got[0]
    if status == "error" and obs != "PlaybookVerificationError":
        out.append(("exclusion:invalid-request-rejected", "PlaybookVerificationError (%s)" % rule,
                    obs if obs != "returned" else "accepted, digest %s" % got[1].hex(), {"rule": rule}))
    elif status == "reject" and obs == "returned":
        out.append(("exclusion:invalid-request-rejected", "an exception (%s)" % rule, "accepted", {"rule": rule}))
    elif status == "ok" and obs != "returned":
        out.append(("exclusion:valid-request-accepted", "accepted", "%s: %s" % got, {"raised": obs, "rule": rule}))
    if obs == "returned" and status in ("ok", "either"):
        # what was handed to GPG is the digest of exactly the reference remainder
        fresh, _ = build(case["play"])
        run = pipeline(fresh)
        if run[0] != "ok":
            out.append(("digest:repeatable", "digest computed as inside verify_play", "%s: %s" % run[1:3],
                        {"second_call": run[1]}))
        else:
            if m.fp_obj(run[3]) != m.fp(rem):
                out.append(("exclusion:remainder-matches-reference", rem, m.enc(run[3]), {"rule": rule}))
            if run[1] != got[1] or not calls or calls[-1][1] != got[1]:
                out.append(("verify:digest-handed-to-gpg", run[1].hex(),
                            {"returned": got[1].hex(), "gpg_saw": calls[-1][1].hex() if calls else None}, {}))
        # not demanded (the statement is silent): that verification leaves the caller's play object untouched
    return out, status, obs


_LABEL_RULES = ("parent_not_dynamic_label", "deeper_than_direct_child")


def check_near(case):
    """A play that carries a NEIGHBOUR of a dynamic label (prefix / suffix / case variant / truncation) as a top-level
    element, and a request built around that neighbour.
      * everything check_excl demands (verify_play: error for a request that is not hosts / vars or a direct child;
        otherwise the remainder is the reference remainder),
      * the same verdict straight from exclude_dynamic_elements (second public door),
      * the neighbour is not 'hosts' / 'vars', so it can never be excluded: whenever the play and its twin (same play,
        only the top-level neighbour's value edited) both get a digest, the two digests differ."""
    out, status, obs = check_excl(case)
    out = list(out)
    obj, pe = build(case["play"])
    _, rule, _ = m.ref_exclusion(pe)
    run = pipeline(obj)
    if status == "error" and rule in _LABEL_RULES and run[:2] != ("exc", "PlaybookVerificationError"):
        out.append(("exclusion:invalid-request-rejected", "PlaybookVerificationError (%s) from exclude_dynamic_elements" % rule,
                    "accepted, digest %s" % run[1].hex() if run[0] == "ok" else "%s: %s" % run[1:3],
                    {"rule": rule, "channel": "exclude_dynamic_elements"}))
    if run[0] == "ok":
        tobj, te = build(case["twin"])
        if m.fp(te) == m.fp(pe):
            raise RuntimeError("harness: the twin of a neighbour play is the play itself: %r" % (case,))
        trun = pipeline(tobj)
        if trun[0] == "ok" and trun[1] == run[1]:
            out.append(("digest:edit-of-non-excludable-element-moves-digest", "a different digest after editing the "
                        "top-level element %r (not hosts / vars: cannot be excluded)" % case.get("neighbour"),
                        "both plays digest to %s" % run[1].hex(), {"rule": rule, "edited": "label_neighbour"}))
    return out, status, obs


def revocation_yaml(hashes, drop_key=False):
    """A revocation file shaped like insights/revoked_playbooks.yaml, signed for the stub."""
    p = pv()
    body = ("- name: revocation list\n  timestamp: 1632510092\n  vars:\n"
            "    insights_signature_exclude: /vars/insights_signature\n    insights_signature: %s\n  revoked_playbooks:%s\n")
    if drop_key:
        body = body.replace("  revoked_playbooks:%s\n", "  comment: no list%s\n")
    items = "".join("\n    - name: revoked %d\n      hash: \"%s\"\n" % (i, h) for i, h in enumerate(hashes)) or " []"
    if drop_key:
        items = ""
    doc = p.load_playbook_yaml(body % ("c2ln", items))[0]
    run = pipeline(doc)
    if run[0] != "ok":
        raise _ValidPlayRefused(run)
    # the shipped file stores the armored signature as !!binary of base64 text: two layers, reproduced here
    inner = sig_for(run[1]).encode()
    return (body % ("!!binary |\n      " + base64.b64encode(inner).decode(), items)).encode()


class _ValidPlayRefused(Exception):
    """The real code refused to digest a play whose exclusion list the reference model calls valid."""


def check_verify(case):
    """verify(): signature validity (stub) x revocation list."""
    try:
        return _check_verify(case)
    except _ValidPlayRefused as ex:
        run = ex.args[0]
        return [("exclusion:valid-request-accepted", "digest computed", "%s: %s" % run[1:3],
                 {"raised": run[1], "rule": "valid"})], "n/a", run[1]


def _check_verify(case):
    p = pv()
    out = []
    obj0, pe = build(case["play"])
    run = pipeline(obj0)
    if run[0] != "ok":
        raise _ValidPlayRefused(run)
    digest = run[1]
    other_obj, other_pe = build({"enc": wrap([(S("k"), S("other play"))], exc="/hosts,/vars"), "mode": "dict"})
    other_run = pipeline(other_obj)
    if other_run[0] != "ok":
        raise _ValidPlayRefused(other_run)
    other = other_run[1]
    sk = case["sig"]
    sig = {"valid": sig_for(digest), "foreign": sig_for(other), "garbage": base64.b64encode(b"x").decode(),
           "empty": "", "not-base64": "!!!", "bad-padding": "a"}[sk]
    h, o = digest.hex(), other.hex()
    o2 = hashlib.sha256(b"a third play").hexdigest()
    flipped = h[:-1] + ("0" if h[-1] != "0" else "1")
    mixed = "".join(c.upper() if i % 2 else c for i, c in enumerate(h))
    rk = case["revoked"]
    hashes = {"empty": [], "self": [h], "other": [o], "other+self": [o, h], "self-uppercase": [h.upper()],
              "self-last-nibble-changed": [flipped], "self+other": [h, o], "self-mixed-case": [mixed],
              "self+self": [h, h], "other+other2+self": [o, o2, h], "other+self-uppercase+other2": [o, h.upper(), o2],
              "malformed-yaml": [h], "list-signature-invalid": [h], "no-revoked-key": []}[rk]
    revoked = any(bytes.fromhex(x) == digest for x in hashes)
    expect_accept = (sk == "valid") and not revoked
    src = dict(case["play"])
    src["enc"] = with_sig(pe, S(sig))
    obj, _ = build(src)
    rev = revocation_yaml(hashes, drop_key=(rk == "no-revoked-key"))
    undecided = rk in ("malformed-yaml", "list-signature-invalid", "no-revoked-key")
    if rk == "malformed-yaml":
        rev = b"- name: [unclosed\n  vars: {\n"
    elif rk == "list-signature-invalid":
        rev = rev.replace(b"timestamp: 1632510092", b"timestamp: 1632510093")     # signed content edited
    with stubbed(rev):
        try:
            ret = p.verify(obj)
            got = "accepted"
        except p.PlaybookVerificationError as ex:
            got = "PlaybookVerificationError"
            ret = str(ex)
        except Exception as ex:
            got = type(ex).__name__
            ret = str(ex)[:200]
    feats = {"revocation_list": case["revoked"], "signature": sk}
    if undecided and sk == "valid":
        return out, "undecided", got
    if expect_accept and got != "accepted":
        out.append(("verify:unrevoked-valid-play-accepted", "accepted", "%s: %s" % (got, ret), feats))
    if not expect_accept and got == "accepted":
        clause = "verify:revoked-play-rejected" if sk == "valid" else "verify:invalid-signature-rejected"
        out.append((clause, "PlaybookVerificationError", "accepted", feats))
    return out, ("accept" if expect_accept else "reject"), got


# =================================================================================================
# units
# =================================================================================================

def units(tier, seed):
    b = BOUNDS[tier]
    n = b["o1_buckets"]
    us = [{"part": "o1", "bucket": i, "of": n} for i in range(n)]
    nb = len(o2_bases(tier))
    step = 8 if tier == "quick" else 10
    us += [{"part": "o2", "lo": lo, "hi": min(nb, lo + step)} for lo in range(0, nb, step)]
    us += [{"part": "o3a", "shard": i, "of": 4} for i in range(4)]
    us += [{"part": "yaml", "lo": lo, "hi": hi} for lo, hi in yaml_chunks(tier)]
    us += [{"part": "yaml-pairs", "shard": i, "of": 8} for i in range(8)]
    us += [{"part": "yaml-special"}, {"part": "yaml-zoo"}]
    us += [{"part": "excl", "mode": md} for md in ("dict", "odict", "yaml-flow", "yaml-block")]
    us += [{"part": "verify", "mode": md} for md in ("dict", "yaml-flow")]
    us += [{"part": "o2", "entries": 3, "lo": lo, "hi": min(len(o2_bases3(tier)), lo + 3)}
           for lo in range(0, len(o2_bases3(tier)), 3)]
    us += [{"part": "excl-gen", "mode": md} for md in ("dict", "yaml-flow")]
    us += [{"part": "order", "index": i} for i in range(len(order_pairs()))]
    us += [{"part": "hist", "base": bi} for bi in range(len(H_BASES))]
    us += [{"part": "shared", "defs": d, "placement": pl, "mode": md}
           for d in DEF_PLACES for pl in PLACEMENTS for md in ("dict", "yaml-flow")]
    us += [{"part": "near", "mode": md, "value": vi, "shard": sh, "of": NEAR_SHARDS[md]}
           for md in near_modes(tier) for vi in near_value_indices(tier, md) for sh in range(NEAR_SHARDS[md])]
    return us


def unit_weight(u):
    return {"o1": 5, "o2": 3, "yaml": 2, "yaml-pairs": 2, "excl-gen": 3}.get(u["part"], 1)


_STRIP = {ord(c): None for c in "'\"\\[]()"}


def _emit(res, vio, case):
    for v in vio:
        clause, exp, obsv = v[0], v[1], v[2]
        feats = v[3] if len(v) > 3 else {}
        res.violation(clause, case, exp, obsv, feats)


def _run_o1(unit, tier, res):
    p = pv()
    u, n = unit["bucket"], unit["of"]
    groups = {}          # digest -> [(fp_hash, src)]  first play of every distinct remainder
    near = {}            # hash of stripped text -> [count, first_fp_hash, several]
    fams = collections.Counter()
    total = 0
    for idx, (fam, pe) in enumerate(universe(tier)):
        total += 1
        mode = container_of(idx)
        obj = m.dec(pe, dict if mode == "dict" else collections.OrderedDict)
        run = pipeline(obj)
        if run[0] != "ok":
            if idx % n == u:
                src = {"enc": pe, "mode": mode}
                res.case(nontrivial=False, outcome="o1:raised:%s" % run[1])
                _emit(res, check_single(src, obj, pe, run), {"kind": "single", "play": src})
            continue
        text = run[2]
        mine = zlib.crc32(text) % n == u
        stripped = text.decode("utf-8").translate(_STRIP).encode("utf-8")
        mine2 = zlib.crc32(stripped) % n == u
        if not (mine or mine2):
            continue
        ref = m.ref_exclusion(pe)
        if ref[0] != "ok":
            raise RuntimeError("harness: universe play without reference status ok: %r" % (pe,))
        fph = hashlib.blake2b(m.fp(ref[2]).encode(), digest_size=12).digest()
        if mine2:
            key = hashlib.blake2b(stripped, digest_size=10).digest()
            ent = near.get(key)
            if ent is None:
                near[key] = [1, fph, False]
            else:
                ent[0] += 1
                if ent[1] != fph:
                    ent[2] = True
        if not mine:
            continue
        res.evals += 1
        fams[fam] += 1
        src = {"enc": pe, "mode": mode}
        vio = check_single(src, obj, pe, run)
        if vio:
            _emit(res, vio, {"kind": "single", "play": src})
        g = groups.get(run[1])
        if g is None:
            groups[run[1]] = [(fph, src)]
        elif all(f != fph for f, _ in g):
            case = {"kind": "pair", "p": g[0][1], "q": src}
            _emit(res, check_pair(case), case)
            g.append((fph, src))
            res.stat("o1_colliding_plays")
        if len(res.samples) < 2 and fam in ("A2", "B1"):
            res.samples.append({"kind": "single", "play": src})
    for ent in near.values():
        if ent[2]:
            res.nontrivial += ent[0]
    sizes = collections.Counter(min(len(g), 3) for g in groups.values())
    for k, c in sizes.items():
        res.outcomes.add("o1:distinct-remainders-per-digest:%d" % k)
    for f in fams:
        res.outcomes.add("o1:family:%s" % f)
    res.stat("o1_plays", sum(fams.values()))
    res.stat("o1_distinct_digests", len(groups))
    res.maxi("o1_universe_size", total)
    for f, c in fams.items():
        res.stat("o1_family_%s" % f, c)


def _run_o2(unit, tier, res):
    p = pv()
    bases = (o2_bases3(tier) if unit.get("entries") == 3 else o2_bases(tier))[unit["lo"]:unit["hi"]]
    for entries in bases:
        base_e = o2_wrap(entries)
        base_src = {"enc": base_e, "mode": "dict"}
        obj, _ = build(base_src)
        run = pipeline(obj)
        if run[0] != "ok":
            _emit(res, check_single(base_src, obj, base_e, run), {"kind": "single", "play": base_src})
            continue
        text = run[2].decode("utf-8")
        target = run[1]
        base_fp = m.fp(m.ref_exclusion(base_e)[2])
        seen = set()
        n = len(text)
        res.maxi("o2_longest_attacked_text", n)
        for i in range(n):
            for j in range(i + 1, n + 1):
                s = text[i:j]
                if s in seen or not (DELIMS & set(s)):
                    continue
                seen.add(s)
                crafted = o2_crafted(entries, s)
                for sk, ents in enumerate(crafted):
                    qe = o2_wrap(ents)
                    qobj = m.dec(qe, dict)
                    r = pipeline(qobj)
                    res.evals += 1
                    if r[0] != "ok":
                        case = {"kind": "single", "play": {"enc": qe, "mode": "dict"}}
                        _emit(res, check_single(case["play"], qobj, qe, r), case)
                        continue
                    if len(r[2]) == len(run[2]):
                        res.nontrivial += 1
                    if r[1] == target:
                        res.stat("o2_recreated_texts")
                        case = {"kind": "pair", "p": base_src, "q": {"enc": qe, "mode": "dict"}}
                        _emit(res, check_pair(case), case)
                        res.outcomes.add("o2:skeleton%d:same-digest" % sk)
                    else:
                        res.outcomes.add("o2:skeleton%d:differs" % sk)
        res.stat("o2_bases")
        res.stat("o2_substrings", len(seen))
    if bases:
        res.samples.append({"kind": "pair", "p": {"enc": o2_wrap(bases[0]), "mode": "dict"},
                            "q": {"enc": o2_wrap([(S("x', "), S("x"))]), "mode": "dict"}})


def _run_o3a(unit, tier, res):
    for gi, plays in enumerate(x_groups()):
        if gi % unit["of"] != unit["shard"]:
            continue
        by_fp = {}
        for pi, pe in enumerate(plays):
            ref = m.ref_exclusion(pe)
            if ref[0] != "ok":
                continue
            src = {"enc": pe, "mode": "odict" if pi % 2 else "dict"}
            obj, _ = build(src)
            run = pipeline(obj)
            res.evals += 1
            if run[0] != "ok":
                _emit(res, check_single(src, obj, pe, run), {"kind": "single", "play": src})
                continue
            # the same play through the public entry point: what verify_play hands to GPG is this digest
            xcase = {"kind": "excl", "play": src}
            _emit(res, check_excl(xcase)[0], xcase)
            f = m.fp(ref[2])
            ent = by_fp.get(f)
            if ent is None:
                by_fp[f] = (run[1], src)
                res.outcomes.add("o3a:first-filling")
            else:
                res.nontrivial += 1          # a second filling of the excluded parts of the same remainder
                if ent[0] != run[1]:
                    case = {"kind": "pair", "p": ent[1], "q": src}
                    _emit(res, check_pair(case), case)
                    res.outcomes.add("o3a:digest-moved")
                else:
                    res.outcomes.add("o3a:digest-kept")
        res.stat("o3a_groups")
        res.stat("o3a_distinct_remainders", len(by_fp))


def _run_yaml(srcs, res, label):
    groups = {}
    for src in srcs:
        obj, pe = build(src)
        run = pipeline(obj)
        res.evals += 1
        ref = m.ref_exclusion(pe)
        if ref[0] != "ok":
            raise RuntimeError("harness: YAML universe play without reference status ok: %r" % (src,))
        vio = check_single(src, obj, pe, run)
        if vio:
            _emit(res, vio, {"kind": "single", "play": src})
        if run[0] != "ok":
            continue
        # the same content as plain dicts: equal digests mean the global O1 grouping already covers this play
        try:
            twin = pipeline(m.dec(pe, dict))
        except ValueError:
            twin = ("n/a",)
        if vio:
            res.stat("yaml_play_with_violation_not_compared_with_twin")
        elif twin[0] == "n/a":
            res.stat("yaml_play_without_dict_twin")        # loader-only types (sets): grouped inside this unit only
        elif twin[0] == "ok" and twin[1] == run[1]:
            res.stat("yaml_digest_equals_dict_twin")
        elif suspicious_leaves(obj):
            # a loader object that serialises unlike its plain value (drafted findings): grouped inside this unit only
            res.stat("yaml_play_with_loader_object_grouped_in_unit_only")
        else:
            res.stat("yaml_digest_differs_from_dict_twin")
            res.notes.append("some YAML-loaded plays digest differently from their dict twins: collisions between "
                             "YAML plays of different units are then not decided")
            res.exhaustive = False
        f = m.fp(ref[2])
        g = groups.get(run[1])
        if g is None:
            groups[run[1]] = [(f, src)]
            res.outcomes.add("%s:own-digest" % label)
        elif all(x != f for x, _ in g):
            res.nontrivial += 1
            case = {"kind": "pair", "p": g[0][1], "q": src}
            _emit(res, check_pair(case), case)
            g.append((f, src))
            res.outcomes.add("%s:shared-digest-different-content" % label)
        else:
            res.nontrivial += 1              # a different spelling / filling of the same content
            res.outcomes.add("%s:shared-digest-same-content" % label)
    res.stat("%s_plays" % label.replace("-", "_"), len(srcs))
    res.notes = sorted(set(res.notes))


def _run_shared(srcs, res):
    """Plays with shared containers, grouped by digest inside the unit (all retargeting / re-nesting / expanding
    edits of one skeleton are in one unit)."""
    groups, by_fp = {}, {}
    for src in srcs:
        obj, pe = build(src)
        run = pipeline(obj)
        res.evals += 1
        ref = m.ref_exclusion(pe)
        if ref[0] != "ok":
            raise RuntimeError("harness: shared-container play without reference status ok: %r" % (src,))
        vio = check_single(src, obj, pe, run)
        if vio:
            _emit(res, vio, {"kind": "single", "play": src})
        if run[0] != "ok":
            continue
        f = m.fp(ref[2])
        g = groups.get(run[1])
        if g is None:
            groups[run[1]] = [(f, src)]
        elif all(x != f for x, _ in g):
            case = {"kind": "pair", "p": g[0][1], "q": src}
            _emit(res, check_pair(case), case)
            g.append((f, src))
            res.outcomes.add("shared:same-digest-different-content")
        by_fp.setdefault(f, set()).add(run[1])
    # control, observed only (the statement does not say whether an alias and its expansion digest alike)
    for f, ds in by_fp.items():
        if len(ds) == 1:
            res.stat("shared_content_classes_with_one_digest")
        else:
            res.stat("shared_content_classes_with_several_digests")
    res.nontrivial += sum(1 for src in srcs if _has_ref(src["senc"]))
    res.outcomes.add("shared:alias-and-expansion-%s" % ("same-digest" if not res.stats.get(
        "shared_content_classes_with_several_digests") else "differ"))
    res.stat("shared_plays", len(srcs))
    res.stat("shared_distinct_contents", len(by_fp))
    res.samples.append({"kind": "single", "play": srcs[len(srcs) // 2]})


def run_unit(unit, tier):
    res = Result()
    part = unit["part"]
    if part == "o1":
        _run_o1(unit, tier, res)
    elif part == "o2":
        _run_o2(unit, tier, res)
    elif part == "o3a":
        _run_o3a(unit, tier, res)
    elif part == "yaml":
        srcs = list(yaml_plays(unit["lo"], unit["hi"]))
        _run_yaml(srcs, res, "yaml")
        res.samples.append({"kind": "single", "play": srcs[0]})
    elif part == "yaml-pairs":
        _run_yaml(list(yaml_pair_plays(unit["shard"], unit["of"])), res, "yaml-pairs")
    elif part == "shared":
        _run_shared(list(shared_plays(unit["defs"], unit["placement"], unit["mode"])), res)
    elif part == "yaml-zoo":
        _run_yaml(list(yaml_zoo_plays()), res, "yaml-zoo")
    elif part == "yaml-special":
        _run_yaml([{"yamltext": t} for t in yaml_special_texts()], res, "yaml-special")
    elif part == "excl":
        for pe in excl_plays():
            case = {"kind": "excl", "play": {"enc": pe, "mode": unit["mode"]}}
            try:
                vio, status, obs = check_excl(case)
            except RuntimeError:
                raise
            res.case(nontrivial=status in ("error", "reject"), outcome="excl:%s:%s" % (status, obs))
            _emit(res, vio, case)
        res.samples.append(case)
    elif part == "excl-gen":
        for pe in excl_gen_plays(full=(unit["mode"] == "dict")):
            case = {"kind": "excl", "play": {"enc": pe, "mode": unit["mode"]}}
            vio, status, obs = check_excl(case)
            res.case(nontrivial=status in ("error", "reject"), outcome="excl:%s:%s" % (status, obs))
            _emit(res, vio, case)
        res.samples.append(case)
    elif part == "near":
        case = None
        for ci, case in enumerate(near_cases(unit["mode"], unit["value"])):
            if ci % unit["of"] != unit["shard"]:
                continue
            vio, status, obs = check_near(case)
            res.case(nontrivial=status in ("error", "reject"), outcome="near:%s:%s" % (status, obs))
            _emit(res, vio, case)
            res.stat("near_cases")
        res.maxi("near_neighbour_labels", len(near_labels()))
        res.samples.append(case)
    elif part == "order":
        a, b = order_pairs()[unit["index"]]
        pa, pb = _scalar_plays(a), _scalar_plays(b)
        ab = fresh_process_digests(pa + pb)                # one fresh interpreter: a's plays, then b's
        ba = fresh_process_digests(pb + pa)                # another one: b's plays, then a's
        res.stat("fresh_interpreters", 2)
        for first, second, after, alone in ((a, b, ab[len(pa):], ba[:len(pb)]), (b, a, ba[len(pb):], ab[:len(pa)])):
            case = {"kind": "order", "first": first, "second": second}
            vio = check_order(case, after=after, alone=alone)
            res.case(nontrivial=True, outcome="order:%s" % ("differs" if vio else "same"), sample=case)
            _emit(res, vio, case)
    elif part == "hist":
        for case in hist_cases(tier):
            if case["base"] != unit["base"]:
                continue
            vio = check_hist(case)
            res.case(nontrivial=len(case["steps"]) > 1, outcome="hist:%d:%s" % (len(case["steps"]), "differs" if vio else "same"))
            _emit(res, vio, case)
        res.samples.append(case)
    elif part == "verify":
        for pi, pe in enumerate(verify_plays()):
            for rk in REVOCATION_KINDS:
                for sk in SIG_KINDS:
                    case = {"kind": "verify", "play": {"enc": pe, "mode": unit["mode"]}, "revoked": rk, "sig": sk}
                    vio, exp, got = check_verify(case)
                    res.case(nontrivial=exp == "reject", outcome="verify:%s:%s" % (exp, got))
                    _emit(res, vio, case)
        res.samples.append(case)
    else:
        raise ValueError(part)
    return res


def replay(case):
    kind = case.get("kind")
    if kind == "pair":
        vio = check_pair(case)
    elif kind == "single":
        vio = check_single(case["play"])
    elif kind == "excl":
        vio = check_excl(case)[0]
    elif kind == "near":
        vio = check_near(case)[0]
    elif kind == "verify":
        vio = check_verify(case)[0]
    elif kind == "order":
        vio = check_order(case)
    elif kind == "hist":
        vio = check_hist(case)
    else:
        raise ValueError(kind)
    return [{"clause": v[0], "case": case, "expected": v[1], "observed": v[2], "features": v[3] if len(v) > 3 else {}}
            for v in vio]


TECHNIQUE = ("bounded exhaustive enumeration of plays and of crafted edits executed against the real exclusion, "
             "serialisation and hashing code; global grouping by digest compared with a structural fingerprint of a "
             "reference remainder")
LEVEL_TEXT = ("Injectivity of the signed digest is decided on a finite universe of plays chosen from the serialiser's own "
              "delimiters and type shortcuts: every pair of plays inside the universe is covered by a global grouping "
              "(any change / insert / delete / reorder / re-nest / re-type edit that stays inside the universe), every "
              "substring of a serialised play is re-used as a key or value, every exclusion request of the alphabet is "
              "run through verify_play, every request built around a look-alike of 'hosts' / 'vars' (prefix, suffix, case "
              "variant, truncation) is run against a play that really has an element of that name, through verify_play and "
              "through exclude_dynamic_elements, and editing that element must move the digest, every revocation list shape through verify. No sampling.")
LEVEL_NOTE = ("Trusted: the 60-line reference model of the exclusion rule and the typed encoding used as structural "
              "equality; GPG and the shipped revocation file are stubbed; only the Python >= 3.12 serialiser path runs.")
