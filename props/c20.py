"""C20 - configuration-tree queries return exactly the matching nodes.

Bounded exhaustive enumeration of (forest, query, options, entry point) executed against the real
insights.parsr.query code and compared, as lists of node identities, with the reference model in
ref/c20_query_model.py (two formulations, cross-checked on every case).  A second universe enumerates
boolean combinations over the predicate atoms and compares the interpreted evaluator (test) with the
compiled one (to_pyfunc) on every node value.

The space is cut into sub-universes, each enumerated completely:

  BOOL  all predicates of depth <= 2 over the atoms, All/Any with three operands, depth-3 combinations of
        case-sensitive and case-insensitive leaves  x  all node values (str, int, "", 0)     (interpreted vs compiled)
        predicate-construction histories: base = All/Any of two atoms, its meaning recorded (interpreted, compiled),
        then base & c, base | c, c & base, c | base, ~base, base & base, base | base and expressions in which the
        base OBJECT occurs twice (base | (base & c), ...) are built from it; base must keep its meaning (interpreted,
        fresh compile, the earlier compiled function) and the derived predicate must mean what was written
  UA    forests <= 2 nodes, all 15 labels  x  every one-level query form over the large predicate set
  UF    forests 0..2 nodes, 12 falsy / boundary labels (name "", attributes 0, "", None, three mixed attributes,
        a matching attribute before a raising one)  x  one- and two-level queries built for them
  UL    one node, name a, EVERY attribute tuple of <= 3 values over {"x", 1, ["x"], {"k": 1}} (list / dict valued =
        unhashable attributes, as from_dict keeps them for nested lists; the matching attribute in every position
        relative to them)  x  (name, q) / (name, q0, q1) over all ordered pairs of 10 alternatives (plain literals,
        list / dict literals, predicates, raw callables) / (name, q0, q1, q2) over all ordered triples of 6 / any_ / all_
  UL2   forests = 2 nodes over the tuples of <= 2 such values  x  10 one-level and 25 (thorough 100) two-level queries
  ULEP  the UL documents built with Entry and through from_dict  x  select / find / [] with two-alternative tuples
  U1    forests <= 3 nodes, 6 labels       x  all one- and two-level queries over the medium level set
  U2    forests  = 4 nodes, 6 labels       x  all one- and two-level queries over the reduced level set
  UA3   forests  = 3 nodes, all 15 labels  x  (thorough) every one-level query form over the quick predicate set
  U2B   forests  = 5 nodes, 4 labels       x  (thorough) all one- and two-level queries over 5 levels
  U3    forests  = 5 nodes, names only     x  all three-level queries over {literal, None}
  UD    chains 60 deep (40 through the nginx parser), with and without a leaf beside every nested node
                                           x  all one- to four-level name queries
  UI    two or three documents with 2..4 sections in all, one leaf (or leaf with a child) per section; the queried
        Result gathers the sections in EVERY order, so nodes of different documents interleave
                                           x  select / find / [] / chained select, deep on/off, roots on/off
  UEP   forests <= 3 nodes                 x  every entry point (select, find, find_all, [], chained select,
                                              chained [], where) on Entry, from_dict, a real ConfigParser (nginx)
                                              document and a Result over several documents; two-step histories
                                              on ONE document / ONE Result object (query, then query again,
                                              also with the identical python query objects)

  UR    re-parenting histories in ONE process: every forest <= 3 nodes (thorough 4) over names a, b is built as a
        document and asked for roots (6 first steps: nothing, select / find with roots=True, .root of every node,
        Result.roots), its nodes are then moved into another document through the public API the combiners and tree
        builders use (Entry(children=...) wrap, nesting under a new section, twice in a row with a query in between,
        split over two documents, spliced in place of a top-level / nested include node by insights.core.flatten
        after ConfigCombiner's children.extend) and the NEW document is queried (12 select / find queries with roots,
        .root of every node, Result.roots); the oracle is the reference model applied to the FINAL tree (read back
        through children lists): the ultimate ancestor is the container of the document that holds the node NOW

UA..U3 run compile_queries() once per query and the module-level select() per (forest, options): that is
literally the body of Entry.select, and it keeps the cost at ~15-20 us per case; UEP goes through the
public methods (one exec-compile per call, ~150 us).  Every bulk forest is queried as a document
(Entry container, 4 option combinations) and, in UF/U1/U2/U2B/U3, also as a Result over several parentless
documents (each top-level tree is its own document) so that `roots` has something to de-duplicate.
The built objects are reused by thousands of queries; after every query their structure (names, attributes,
child lists, parent links, read through public attributes) is compared with the snapshot taken when they were
built (clause query:tree-unchanged) - a query that re-parents or drops nodes is a verdict, not a harness error.

Results are demanded in DOCUMENT ORDER for every option combination, as the statement says.  The unchanged
tree does not do that for deep multi-level queries whose level-1 matches nest (it returns match-path order);
such violations carry the feature deep_multilevel_match_path_order (findings-draft/C20.json).

Not judged (outside the property's quantifier): select() with zero queries raises IndexError although
ConfigComponent.select's docstring says it returns everything (the quantifier starts at one level);
select(..., roots=True) on a parsed document yields the document container itself (that IS the ultimate
ancestor); a node object shared by two parents is not a tree; False / True as attribute values next to 0 / 1
(literal equality is Python's ==, the statement does not say whether 0 matches False); None as an attribute
literal in a query tuple; chains deeper than ~500 raise RecursionError in _flatten (no parser produces them).
"""
import itertools

from mc.result import Result, canon_json
from mc import enumx
from ref import c20_query_model as M

ID = "C20"
LEVEL = "exploration"
RULE = ("every (forest, query, deep, roots, entry point) of the stated sub-universes, each enumerated completely; "
        "every predicate of depth <= 2 over the atoms on every node value. A tree case is non-trivial when the "
        "query discriminates in that tree (some evaluated node matched and some evaluated node was rejected); "
        "a predicate case is non-trivial when the predicate is not constant over the value universe; a re-parenting "
        "history (document, first roots query, re-parenting method, judged query) is non-trivial when a roots query "
        "preceded the re-parenting and the judged query has results; UL/ULEP: every attribute tuple of <= 3 values "
        "with list / dict valued members x every ordered pair / triple of tuple-query alternatives")
ASSUMPTIONS = [
    "ref/c20_query_model.py states the query semantics; its level-by-level and path-wise formulations are "
    "cross-checked on every enumerated case, its short-circuit and leaf-wise boolean evaluators on every "
    "non-raising (predicate, value) pair",
    "a boolean combination is one predicate: if its short-circuit evaluation raises the value does not match "
    "(skipped leaves do not count as raising); each element of a query tuple is its own predicate",
    "results are demanded in document (pre-)order for every option combination; match-path order is computed only "
    "to attribute the known deep multi-level family narrowly",
    "a query must not change the tree: structure read through public attributes is compared after every query",
    "roots maps to the node reached by following parent links to the end (the document container for parsed documents)",
    "compile_queries()+select() is used for the bulk universes (the two-line body of Entry.select); the public "
    "methods are enumerated in UEP",
    "after nodes were moved into another document the ultimate ancestor of a node is the container of the document whose "
    "children lists reach it now (UR); list / dict valued attributes compare with == against literals, ordering predicates "
    "and str methods raise on them; contains / isin are not asked about them",
    "bounded: no counterexample within the stated node / level / predicate-depth bounds over the stated alphabets",
]

NAMES = ["a", "b", "A"]
ATTRS = [[], ["x"], [1], ["x", "Y"], [1, "x"]]
VALUES = ["a", "b", "A", "x", "Y", 1, "ab", "", 0]      # names and attributes, str and int, falsy ones too

BOUNDS = {
    "quick": {"max_nodes": 4, "three_level_nodes": 5, "max_depth": 3, "deep_chain_depth": 60, "levels": 3,
              "predicate_depth": 2, "predicate_depth_mixed_case_spine": 3, "predicate_atoms": 8, "node_values": 9,
              "labels_full": 15, "labels_reduced": 6, "labels_falsy": 12, "history_steps": 3,
              "unhashable_attr_values": 2, "unhashable_labels_attr_tuples_le3": 85, "tuple_query_alternatives": 3,
              "reparent_forest_nodes": 3, "reparent_methods": 6, "reparent_first_steps": 6, "reparent_judged_queries": 14},
    "thorough": {"max_nodes": 5, "three_level_nodes": 5, "max_depth": 3, "deep_chain_depth": 60, "levels": 3,
                 "predicate_depth": 2, "predicate_depth_mixed_case_spine": 3, "predicate_atoms": 16, "node_values": 9,
                 "labels_full": 15, "labels_reduced": 6, "labels_falsy": 12, "history_steps": 3,
                 "unhashable_attr_values": 2, "unhashable_labels_attr_tuples_le3": 85, "tuple_query_alternatives": 3,
                 "reparent_forest_nodes": 4, "reparent_methods": 6, "reparent_first_steps": 6, "reparent_judged_queries": 14},
}
CAP_S = {"quick": 240, "thorough": 3000}


def P(f, a=None):
    return ["p", f, a]


Q_ATOMS = [P("eq", "a"), P("eq", 1), P("ieq", "A"), P("istartswith", "X"),
           P("isin", ["b", "x", 1]), P("matches", "[aY]"), P("lt", 2), P("raise")]
T_ATOMS = Q_ATOMS + [P("startswith", "a"), P("eq", "x"), P("ieq", "y"), P("contains", "Y"), P("gt", 0), P("endswith", "x"),
                     P("icontains", "A"), P("iendswith", "Y")]


def atoms(tier):
    return Q_ATOMS if tier == "quick" else T_ATOMS


def depth1(at):
    return [["not", x] for x in at] + [[op, x, y] for op in ("and", "or") for x in at for y in at]


def depth2_unary(at):
    return [["not", x] for x in depth1(at)]


def depth2_binary_rows(at):
    """Rows of the depth-2 binary block: row i = all [op, s1[i], y] whose depth is exactly 2."""
    s1 = at + depth1(at)
    n0 = len(at)
    return s1, n0


def nary(at):
    """All(a, b, c) / Any(a, b, c) built directly with three operands (the compiled form joins them)."""
    return [[op, x, y, z] for op in ("and", "or") for x in at for y in at for z in at]


MIXED_Q = [P("eq", "A"), P("ieq", "a")]
MIXED_T = [P("eq", "A"), P("ieq", "a"), P("startswith", "Y")]


def depth3_spine(tier):
    """Depth-3 combinations of case-sensitive and case-insensitive leaves: every exact-depth-2 expression over
    the mixed atoms, negated, and combined with one more atom on either side."""
    at = MIXED_Q if tier == "quick" else MIXED_T
    s1 = at + depth1(at)
    n0 = len(at)
    d2 = depth2_unary(at)
    for i, x in enumerate(s1):
        for j, y in enumerate(s1):
            if i < n0 and j < n0:
                continue
            d2.append(["and", x, y])
            d2.append(["or", x, y])
    out = [["not", x] for x in d2]
    for x in d2:
        for a in at:
            for op in ("and", "or"):
                out.append([op, x, a])
                out.append([op, a, x])
    return out


def all_depth2(at):
    s1, n0 = depth2_binary_rows(at)
    out = list(s1) + depth2_unary(at)
    for i, x in enumerate(s1):
        for j, y in enumerate(s1):
            if i < n0 and j < n0:
                continue
            out.append(["and", x, y])
            out.append(["or", x, y])
    return out


# ---- level-query sets --------------------------------------------------------------------------------

def nq_lit(s):
    return ["lit", s]


NONE = ["none"]


def tree_bools(tier):
    at = atoms(tier)
    core = [P("eq", "a"), P("eq", 1), P("ieq", "A"), P("lt", 2)]
    if tier == "quick":
        out = list(at) + [["not", x] for x in at]
        out += [[op, x, y] for op in ("and", "or") for x in core for y in core]
        return out
    out = list(at) + depth1(at)
    small = [P("eq", "a"), P("eq", 1), P("ieq", "A")]
    s1 = small + depth1(small)
    out += [["not", x] for x in depth1(small)]
    for i, x in enumerate(s1):
        for j, y in enumerate(s1):
            if i < 3 and j < 3:
                continue
            out.append(["and", x, y])
            out.append(["or", x, y])
    return out


AQ_MED = [["lit", "x"], ["lit", 1], ["bool", P("ieq", "y")], ["bool", P("lt", 2)],
          ["bool", ["not", P("ieq", "A")]], ["fn", "raise"], ["fn", "str_x"], ["fn", "lt2"]]
AQ_MED_T = AQ_MED + [["lit", "Y"], ["bool", ["not", P("startswith", "x")]], ["bool", P("isin", ["b", "x", 1])],
                     ["fn", "self"]]


def entry_queries(tier):
    aqs = AQ_MED if tier == "quick" else AQ_MED_T
    base = [[k, aq] for k in ("any", "all") for aq in aqs]
    out = list(base) + [["not", e] for e in base]
    core = [["any", ["lit", "x"]], ["all", ["lit", "x"]], ["any", ["lit", 1]], ["all", ["bool", P("lt", 2)]]]
    out += [[op, x, y] for op in ("and", "or") for x in core for y in core]
    return out


def lq_big(tier):
    """UA: every one-level query form over the large predicate set."""
    bools = tree_bools(tier)
    nq_all = [nq_lit("a"), nq_lit("b"), nq_lit("A"), NONE, ["fn", "raise"], ["fn", "eq_a"], ["fn", "self"],
              ["fn", "str_x"], ["fn", "lt2"]] \
        + [["bool", b] for b in bools]
    aq_all = [["lit", "x"], ["lit", 1], ["lit", "Y"], ["fn", "raise"], ["fn", "self"], ["fn", "str_x"], ["fn", "lt2"]] \
        + [["bool", b] for b in bools]
    nq_small = [nq_lit("a"), NONE, ["bool", ["not", P("eq", "b")]]]
    out = [["name", nq] for nq in nq_all]
    out += [["tuple", nq, aq] for nq in nq_small for aq in aq_all]
    med = AQ_MED if tier == "quick" else AQ_MED_T
    out += [["tuple", nq, a1, a2] for nq in (nq_lit("a"), NONE) for a1 in med for a2 in med]
    out += [["tuple", NONE, ["lit", "x"], ["lit", 1], ["bool", P("ieq", "y")]]]
    eqs = entry_queries(tier)
    out += [["entry", e] for e in eqs]
    out += [["tuple", nq, ["entry", e]] for nq in (nq_lit("a"), NONE) for e in eqs]
    return out


def lq_med(tier):
    """U1: medium set, one query per form and predicate family."""
    out = [["name", nq_lit("a")], ["name", nq_lit("b")], ["name", NONE],
           ["tuple", nq_lit("a"), ["lit", "x"]], ["tuple", NONE, ["lit", 1]],
           ["tuple", nq_lit("b"), ["lit", "x"], ["lit", 1]],
           ["name", ["bool", ["not", P("eq", "a")]]],
           ["tuple", NONE, ["bool", P("lt", 2)]],
           ["tuple", NONE, ["bool", ["not", P("ieq", "A")]]],
           ["tuple", NONE, ["entry", ["not", ["any", ["lit", 1]]]]],
           ["tuple", NONE, ["fn", "raise"], ["bool", P("matches", "[aY]")]],
           ["tuple", NONE, ["fn", "str_x"]]]
    if tier == "thorough":
        out += [["name", nq_lit("A")],
                ["name", ["fn", "raise"]],
                ["entry", ["all", ["bool", P("isin", ["b", "x", 1])]]],
                ["name", ["bool", ["or", P("startswith", "a"), P("lt", 2)]]],
                ["tuple", NONE, ["bool", ["not", P("eq", "x")]]],
                ["tuple", nq_lit("a"), ["bool", P("istartswith", "X")]],
                ["name", ["bool", P("ieq", "A")]],
                ["name", ["bool", ["and", P("isin", ["b", "x", 1]), ["not", P("raise")]]]],
                ["name", ["fn", "eq_a"]],
                ["tuple", nq_lit("b"), ["lit", 1]],
                ["tuple", NONE, ["lit", "x"]],
                ["tuple", NONE, ["bool", P("gt", 0)]],
                ["tuple", NONE, ["bool", ["or", P("ieq", "A"), P("eq", 1)]]],
                ["tuple", ["bool", P("matches", "[aY]")], ["bool", P("contains", "x")]],
                ["tuple", nq_lit("a"), ["bool", P("eq", 1)], ["bool", P("eq", "x")]],
                ["entry", ["any", ["bool", ["not", P("lt", 2)]]]],
                ["entry", ["and", ["any", ["lit", "x"]], ["all", ["lit", "x"]]]],
                ["tuple", nq_lit("a"), ["entry", ["all", ["lit", "x"]]]],
                ["tuple", NONE, ["fn", "self"]],
                ["entry", ["not", ["all", ["fn", "raise"]]]],
                ["entry", ["not", ["any", ["fn", "lt2"]]]],
                ["tuple", nq_lit("b"), ["fn", "lt2"], ["lit", "Y"]],
                ["tuple", ["fn", "self"], ["lit", 1], ["lit", "x"]]]
    return out


def lq_red(tier):
    """U2: literal, None, one predicate per family."""
    out = [["name", nq_lit("a")], ["name", NONE], ["tuple", NONE, ["lit", 1]],
           ["tuple", nq_lit("b"), ["bool", ["not", P("eq", "x")]]]]
    if tier == "thorough":
        out += [["name", nq_lit("b")], ["tuple", nq_lit("a"), ["lit", "x"]],
                ["name", ["bool", ["not", P("eq", "a")]]], ["tuple", NONE, ["bool", ["not", P("ieq", "A")]]]]
    return out


LQ_5 = [["name", nq_lit("a")], ["name", NONE], ["tuple", NONE, ["lit", "x"]], ["name", nq_lit("b")],
        ["tuple", nq_lit("b"), ["bool", P("lt", 2)]]]


def lq_falsy(tier):
    """UF: falsy / boundary names and attribute values ("" as a name, 0, "" and None as attributes, a prefix
    variant of a name, three attributes of mixed types, a matching attribute before a raising one)."""
    nqs = [nq_lit(""), nq_lit("ab"), nq_lit("a"), NONE, ["bool", P("eq", "")], ["bool", ["not", P("eq", "")]],
           ["bool", P("startswith", "a")], ["bool", P("ieq", "AB")], ["bool", P("matches", "b$")],
           ["fn", "self"], ["fn", "str_x"], ["fn", "lt2"]]
    aqs = [["lit", 0], ["lit", ""], ["lit", "x"], ["lit", 1], ["bool", P("eq", 0)], ["bool", P("eq", "")],
           ["bool", ["not", P("eq", 0)]], ["bool", P("lt", 1)], ["bool", P("isin", [0, ""])], ["bool", P("ieq", "")],
           ["bool", ["not", P("ieq", "x")]], ["fn", "self"], ["fn", "str_x"], ["fn", "lt2"], ["fn", "raise"]]
    sub = [["lit", 0], ["lit", ""], ["fn", "str_x"], ["fn", "lt2"], ["bool", P("lt", 1)], ["fn", "self"]]
    out = [["name", nq] for nq in nqs]
    out += [["tuple", nq, aq] for nq in (NONE, nq_lit("")) for aq in aqs]
    out += [["tuple", NONE, a1, a2] for a1 in sub for a2 in sub]
    base = [[k, aq] for k in ("any", "all") for aq in sub + [["bool", ["not", P("eq", 0)]], ["bool", P("eq", "")]]]
    out += [["entry", e] for e in base] + [["entry", ["not", e]] for e in base]
    return out


LQ_F2 = [["name", nq_lit("")], ["name", NONE], ["name", nq_lit("ab")], ["tuple", NONE, ["lit", 0]],
         ["tuple", NONE, ["lit", ""]], ["tuple", nq_lit(""), ["fn", "str_x"]], ["name", ["fn", "self"]],
         ["entry", ["not", ["any", ["fn", "lt2"]]]]]


# attribute values of the UL universes: plain ones and UNHASHABLE ones (from_dict keeps nested lists and the
# non-dict members of a list as list / dict valued attributes); every tuple of <= 3 of them is a label, so a
# matching attribute stands before, between and after unhashable ones
UNHASH_VALUES = ["x", 1, ["x"], {"k": 1}]


def unhash_alts():
    return [["lit", "x"], ["lit", 1], ["lit", "Y"], ["lit", ["x"]], ["lit", {"k": 1}], ["fn", "str_x"],
            ["bool", P("eq", "x")], ["fn", "lt2"], ["bool", P("lt", 2)], ["bool", ["not", P("eq", "x")]]]


def lq_unhash(tier):
    """UL: one node, every attribute tuple of <= 3 values over UNHASH_VALUES x name / (name, q) / (name, q0, q1) over
    all ordered pairs of 10 alternatives (plain literals, list / dict literals, predicates, raw callables) /
    (name, q0, q1, q2) over all ordered triples of the first 6 / any_ / all_ and their negations."""
    alts = unhash_alts()
    sub = alts[:6]
    nqs = [nq_lit("a"), NONE]
    out = [["name", nq] for nq in nqs]
    out += [["tuple", nq, a] for nq in nqs for a in alts]
    out += [["tuple", nq, a1, a2] for nq in nqs for a1 in alts for a2 in alts]
    out += [["tuple", nq, a1, a2, a3] for nq in nqs for a1 in sub for a2 in sub for a3 in sub]
    base = [[k, a] for k in ("any", "all") for a in alts]
    out += [["entry", e] for e in base] + [["entry", ["not", e]] for e in base]
    return out


def lq_unhash2(tier):
    return [["name", nq_lit("a")], ["name", NONE], ["tuple", NONE, ["lit", "x"], ["lit", 1]],
            ["tuple", nq_lit("a"), ["lit", "Y"], ["lit", "x"]], ["tuple", NONE, ["lit", ["x"]], ["lit", 1]],
            ["tuple", NONE, ["fn", "str_x"], ["lit", 1]], ["tuple", NONE, ["lit", "x"]],
            ["tuple", NONE, ["lit", 1], ["bool", P("lt", 2)], ["lit", {"k": 1}]],
            ["entry", ["any", ["lit", "x"]]], ["entry", ["not", ["all", ["lit", 1]]]]]


def lq_names(tier):
    ns = ["a", "b"] if tier == "quick" else ["a", "b", "A"]
    return [["name", nq_lit(n)] for n in ns] + [["name", NONE]]


def labels(kind):
    if kind == "full":
        return [[n, a] for n in NAMES for a in ATTRS]
    if kind == "red":
        return [[n, a] for n in ("a", "b") for a in ([], ["x"], [1])]
    if kind == "four":
        return [["a", []], ["a", ["x"]], ["b", []], ["b", [1]]]
    if kind == "red7":
        return labels("red") + [["b", [1, "x"]]]
    if kind == "ep":
        return [["a", []], ["a", ["x"]], ["b", [1]], ["b", [1, "x"]]]
    if kind == "falsy":
        return [[n, a] for n in ("", "ab") for a in ([], [0], [""], [None], ["x", 1], [0, "x", "Y"])]
    if kind == "unhash3":
        return [["a", list(t)] for n in (0, 1, 2, 3) for t in itertools.product(UNHASH_VALUES, repeat=n)]
    if kind == "unhash2":
        return [["a", list(t)] for n in (0, 1, 2) for t in itertools.product(UNHASH_VALUES, repeat=n)]
    if kind == "names2":
        return [["a", []], ["b", []]]
    if kind == "names3":
        return [["a", []], ["b", []], ["A", []]]
    raise ValueError(kind)


def shapes(lo, hi, max_depth=3):
    return [f for f in enumx.trees(hi, max_depth) if lo <= _count(f) <= hi]


def _count(f):
    return sum(1 + _count(t) for t in f)


def label_shape(shape, labs):
    it = iter(labs)

    def one(t):
        l = next(it)
        return [l[0], list(l[1]), [one(c) for c in t]]
    return [one(t) for t in shape]


def forests(lo, hi, kind):
    """All labelled forests with lo..hi nodes, depth <= 3, in canonical order."""
    labs = labels(kind)
    for sh in shapes(lo, hi):
        for lab in itertools.product(labs, repeat=_count(sh)):
            yield label_shape(sh, lab)


UNIVERSES = {
    # name: (lo, hi, label kind per tier, level-set function, level counts, multi-document options)
    "UA": {"nodes": (1, 2), "labels": "full", "lq": lq_big, "nlev": (1,), "multi": ()},
    "UA3": {"nodes": (3, 3), "labels": "full", "lq": lambda tier: lq_big("quick"), "nlev": (1,), "multi": ()},
    "UF": {"nodes": (0, 2), "labels": "falsy", "lq": lq_falsy, "nlev": (1,), "lq2": LQ_F2, "multi": ((False, True), (True, True))},
    "U1": {"nodes": (1, 3), "labels": "red", "lq": lq_med, "nlev": (1, 2), "multi": ((False, True), (True, True))},
    "U2": {"nodes": (4, 4), "labels": "red", "lq": lq_red, "nlev": (1,),
           "lq2": lambda tier: lq_red(tier)[:3] if tier == "quick" else lq_red(tier), "multi": ((False, True), (True, True))},
    "U2B": {"nodes": (5, 5), "labels": "four", "lq": lambda tier: LQ_5, "nlev": (1, 2), "multi": ((False, True), (True, True))},
    "UL": {"nodes": (1, 1), "labels": "unhash3", "lq": lq_unhash, "nlev": (1,), "multi": ()},
    "UL2": {"nodes": (2, 2), "labels": "unhash2", "lq": lq_unhash2, "nlev": (1,),
            "lq2": lambda tier: lq_unhash2(tier)[:5] if tier == "quick" else lq_unhash2(tier), "multi": ((False, True), (True, True))},
    "U3": {"nodes": (5, 5), "labels": None, "lq": lq_names, "nlev": (3,), "multi": ((False, False), (False, True), (True, False), (True, True))},
}


def universe_labels(name, tier):
    if name == "U3":
        return "names2" if tier == "quick" else "names3"
    return UNIVERSES[name]["labels"]


def universe_queries(name, tier):
    u = UNIVERSES[name]
    lqs = u["lq"](tier)
    out = []
    for n in u["nlev"]:
        out += [list(t) for t in itertools.product(lqs, repeat=n)]
    if "lq2" in u:
        lq2 = u["lq2"](tier) if callable(u["lq2"]) else u["lq2"]
        out += [list(t) for t in itertools.product(lq2, repeat=2)]
    return out


_FOREST_COUNT = {}


def forest_count(name, tier):
    k = (name, tier)
    if k not in _FOREST_COUNT:
        lo, hi = UNIVERSES[name]["nodes"]
        nl = len(labels(universe_labels(name, tier)))
        _FOREST_COUNT[k] = sum(nl ** _count(sh) for sh in shapes(lo, hi))
    return _FOREST_COUNT[k]


# ---- building the real objects -----------------------------------------------------------------------

def _q():
    from insights.parsr import query
    return query


def _raiser(v):
    raise ZeroDivisionError("predicate raises")


def mk_bool(b):
    Q = _q()
    k = b[0]
    if k == "p":
        if b[1] == "raise":
            return Q.pred(_raiser)
        return getattr(Q, b[1])(b[2])
    if k == "not":
        return ~mk_bool(b[1])
    if k in ("and", "or"):
        if len(b) == 3:
            return (mk_bool(b[1]) & mk_bool(b[2])) if k == "and" else (mk_bool(b[1]) | mk_bool(b[2]))
        from insights.parsr.query.boolean import All, Any
        return (All if k == "and" else Any)(*[mk_bool(x) for x in b[1:]])
    raise ValueError(b)


def mk_fn(kind):
    if kind == "raise":
        return lambda v: 1 // 0
    return M.FN[kind]


def mk_nq(nq):
    k = nq[0]
    if k == "none":
        return None
    if k == "lit":
        return nq[1]
    if k == "bool":
        return mk_bool(nq[1])
    if k == "fn":
        return mk_fn(nq[1])
    raise ValueError(nq)


def mk_aq(aq):
    k = aq[0]
    if k == "lit":
        return aq[1]
    if k == "bool":
        return mk_bool(aq[1])
    if k == "fn":
        return mk_fn(aq[1])
    if k == "entry":
        return mk_eq(aq[1])
    raise ValueError(aq)


def mk_eq(eq):
    Q = _q()
    k = eq[0]
    if k == "any":
        return Q.any_(mk_aq(eq[1]))
    if k == "all":
        return Q.all_(mk_aq(eq[1]))
    if k == "not":
        return ~mk_eq(eq[1])
    if k == "and":
        return mk_eq(eq[1]) & mk_eq(eq[2])
    if k == "or":
        return mk_eq(eq[1]) | mk_eq(eq[2])
    raise ValueError(eq)


def mk_lq(lq):
    k = lq[0]
    if k == "name":
        return mk_nq(lq[1])
    if k == "entry":
        return mk_eq(lq[1])
    if k == "tuple":
        return tuple([mk_nq(lq[1])] + [mk_aq(a) for a in lq[2:]])
    raise ValueError(lq)


def mk_wq(wq):
    Q = _q()
    k = wq[0]
    if k == "q":
        lq = wq[1]
        if lq[0] == "name":
            return Q.child_query(mk_nq(lq[1]))
        if lq[0] == "tuple" and len(lq) == 3:
            return Q.child_query(mk_nq(lq[1]), mk_aq(lq[2]))
        raise ValueError(wq)
    if k == "not":
        return ~mk_wq(wq[1])
    if k == "and":
        return mk_wq(wq[1]) & mk_wq(wq[2])
    if k == "or":
        return mk_wq(wq[1]) | mk_wq(wq[2])
    if k == "fn":
        if wq[1] == "raise":
            return lambda e: 1 // 0
        if wq[1] == "has_kids":
            return lambda e: len(e.children) > 0
    raise ValueError(wq)


def to_dict(forest):
    """The dict from which from_dict builds exactly this forest, or None when it cannot (duplicate sibling
    names that are not an adjacent run of attribute-less nodes; attributes on a node with children)."""
    d = {}
    i = 0
    while i < len(forest):
        name, attrs, kids = forest[i]
        j = i
        while j + 1 < len(forest) and forest[j + 1][0] == name:
            j += 1
        if name in d:
            return None
        run = forest[i:j + 1]
        if len(run) > 1:
            vals = []
            for (_, a, k) in run:
                if a:
                    return None
                sub = to_dict(k)
                if sub is None:
                    return None
                vals.append(sub)
            d[name] = vals
        elif kids:
            if attrs:
                return None
            sub = to_dict(kids)
            if sub is None:
                return None
            d[name] = sub
        elif len(attrs) == 1:
            d[name] = attrs[0]
        elif any(isinstance(a, dict) for a in attrs):
            return None             # from_dict turns a list with dict members into sections: not an attribute tuple
        else:
            d[name] = list(attrs)
        i = j + 1
    return d


def to_nginx(forest, indent=""):
    lines = []
    for name, attrs, kids in forest:
        head = " ".join([name] + [str(a) for a in attrs])
        if kids:
            lines.append(indent + head + " {")
            lines += to_nginx(kids, indent + "  ")
            lines.append(indent + "}")
        else:
            lines.append(indent + head + ";")
    return lines


class Ctx(object):
    """One built forest: the real objects, the structure read back from them, identity map."""
    __slots__ = ("build", "X", "doc", "has_container", "objs", "idmap", "tree", "start_objs", "start", "lab", "forest",
                 "snapshot")


def build_ctx(forest, build, order=None):
    Q = _q()
    c = Ctx()
    c.build = build
    c.forest = forest

    def mk(t):
        return Q.Entry(name=t[0], attrs=tuple(t[1]), children=[mk(k) for k in t[2]])
    if build == "entry":
        c.doc = Q.Entry(children=[mk(t) for t in forest])
        c.X = c.doc
        c.has_container = True
        tops = list(c.doc.children)
    elif build == "multi":
        tops = [mk(t) for t in forest]          # parentless: each top-level tree is its own document
        c.X = Q.Result(children=tops)
        c.doc = None
        c.has_container = False
    elif build == "inter":
        # several parentless documents; the queried Result gathers their second-level nodes (sections) in the
        # order given by the case: `order` lists pre-order numbers, so nodes of different documents interleave
        tops = [mk(t) for t in forest]
        c.X = None
        c.doc = None
        c.has_container = False
    elif build == "from_dict":
        d = to_dict(forest)
        if d is None or not forest:
            return None
        c.doc = Q.from_dict(d)
        c.X = c.doc
        c.has_container = True
        tops = list(c.doc.children)
    elif build == "nginx":
        if not forest:
            return None
        from insights.parsers.nginx_conf import NginxConfPEG
        from harness.ctx import make_context
        conf = NginxConfPEG(make_context(to_nginx(forest), path="/etc/nginx/nginx.conf"))
        c.X = conf
        c.doc = conf.doc
        c.has_container = True
        tops = list(c.doc.children)
    else:
        raise ValueError(build)
    # read the structure back from the real objects: the oracle is about queries, not about the builders
    c.objs = []
    back = []

    def walk(o, into):
        c.objs.append(o)
        node = [o.name, list(o.attrs), []]          # public accessors only
        into.append(node)
        for k in o.children:
            walk(k, node[2])
    for t in tops:
        walk(t, back)
    c.tree = M.Tree(back)
    c.idmap = dict((id(o), i) for i, o in enumerate(c.objs))
    if c.has_container:
        c.idmap[id(c.doc)] = M.DOC
        c.start = list(c.tree.tops)
    elif build == "inter":
        c.X = Q.Result(children=[c.objs[i] for i in order])
        c.start = [k for i in order for k in c.tree.kids[i]]
    else:
        c.start = [k for t in c.tree.tops for k in c.tree.kids[t]]
    c.start_objs = [c.objs[i] for i in c.start]
    c.lab = None
    c.snapshot = structure(c)
    return c


def structure(c):
    """What a query must leave alone: names, attributes, child lists and parent links of every node
    (identities as positions), plus the child list of the container / Result."""
    idmap = c.idmap
    top = c.doc if c.has_container else c.X
    out = [[idmap.get(id(k), "?") for k in top.children]]
    for o in c.objs:
        par = o.parent
        out.append((o.name, tuple(o.attrs), [idmap.get(id(k), "?") for k in o.children],
                    None if par is None else idmap.get(id(par), "?")))
    return out


def ids_of(ctx, result):
    kids = result.children if hasattr(result, "children") else result
    return [ctx.idmap.get(id(o), "?:%s" % type(o).__name__) for o in kids]


# ---- the checker (exploration and replay both end here) -----------------------------------------------

CLAUSE_Q = "query:result-matches-model"
CLAUSE_T = "query:tree-unchanged"


def _sat(ctx, levels, defect):
    t = ctx.tree
    return lambda lv, n: M.level_match(levels[lv], t.name[n], t.attrs[n], defect)


def model_select(ctx, start, levels, deep, roots, defect=False, order="doc"):
    """Expected identities.  order="doc" is what the statement demands (document order); order="path" is the
    order of a level-by-level walk, used only to recognise the known deep multi-level family."""
    sat = _sat(ctx, levels, defect)
    path, trace = M.select_levelwise(ctx.tree, start, sat, len(levels), deep)
    doc2, path2 = M.select_pathwise(ctx.tree, start, sat, len(levels), deep)
    if path != path2 or M.doc_order(ctx.tree, start, path) != doc2:
        raise RuntimeError("reference formulations disagree: %r vs %r / %r on %s"
                           % (path, path2, doc2, canon_json([ctx.forest, levels, deep])))
    res = doc2 if order == "doc" else path
    return M.finish(ctx.tree, res, roots, ctx.has_container), trace


def expected_for(ctx, case, defect=False, order="doc"):
    """Expected identity list for one case (any entry point)."""
    ep = case["ep"]
    levels = case.get("levels") or []
    deep, roots = bool(case.get("deep")), bool(case.get("roots"))
    t = ctx.tree
    if ep in ("select", "compiled", "find", "find_all", "getitem"):
        return model_select(ctx, ctx.start, levels, deep, roots, defect, order)[0]
    pre = case["pre"]
    r1 = model_select(ctx, ctx.start, pre, False, False, defect)[0]
    if ep in ("chain", "chain_getitem"):
        start2 = [k for n in r1 for k in t.kids[n]]
        return model_select(ctx, start2, levels, deep, roots, defect, order)[0]
    if ep == "where":
        return [n for n in r1 if M.where_match(case["wq"], t, n, defect)]
    raise ValueError(ep)


def _call(ctx, step, state, share):
    """One public call.  `state` keeps the Result of the chained first step so that the steps of a history
    run on ONE Result object; `share` (or None) memoises query objects by descriptor so that the identical
    python objects are reused by later steps."""
    Q = _q()

    def lq(l):
        if share is None:
            return mk_lq(l)
        k = canon_json(l)
        if k not in share:
            share[k] = mk_lq(l)
        return share[k]
    ep = step["ep"]
    levels = step.get("levels") or []
    deep, roots = bool(step.get("deep")), bool(step.get("roots"))
    X = ctx.X
    qs = [lq(l) for l in levels]
    if ep == "compiled":
        return Q.select(Q.compile_queries(*qs), ctx.start_objs, deep=deep, roots=roots)
    if ep == "select":
        return X.select(*qs, deep=deep, roots=roots)
    if ep == "find":
        return X.find(*qs, roots=roots)
    if ep == "find_all":
        return X.find_all(*qs, roots=roots)
    if ep == "getitem":
        return X[qs[0]]
    key = canon_json(step["pre"])
    if key not in state:
        state[key] = X.select(*[lq(l) for l in step["pre"]])
    r1 = state[key]
    if ep == "chain":
        return r1.select(*qs, deep=deep, roots=roots)
    if ep == "chain_getitem":
        return r1[qs[0]]
    if ep == "where":
        wq = step["wq"]
        if step.get("where_style") == "args":
            l = wq[1]
            if l[0] == "name":
                return r1.where(mk_nq(l[1]))
            return r1.where(mk_nq(l[1]), mk_aq(l[2]))
        return r1.where(mk_wq(wq))
    raise ValueError(ep)


def observed_for(ctx, case):
    """Runs the steps of case["before"] (results discarded) and then the judged call, all on the same objects."""
    state = {}
    share = {} if case.get("share") else None
    for step in case.get("before") or []:
        try:
            _call(ctx, step, state, share)
        except Exception:
            pass
    return _call(ctx, case, state, share)


def case_bools(case):
    out = []
    for l in (case.get("levels") or []) + (case.get("pre") or []):
        out += M.level_bools(l)
    if case.get("wq"):
        out += M.where_bools(case["wq"])
    return out


def features(ctx, case, exp, got):
    """Narrow attribution to the known families; every flag also requires that the observed list is EXACTLY what
    the family predicts, so any other deviation keeps all flags False and stays a VIOLATION.

    deep_multilevel_match_path_order   deep search with >= 2 levels; the right node set, returned in the order of a
                                       level-by-level walk (children of the first level-1 match first) where that
                                       differs from document order
    caseless_predicate_on_nonstring    (fixed in 83c0148, kept so that a regression is recognised) a case-insensitive
                                       predicate met a non-string attribute and the result is what value.lower()
                                       raising inside the compiled form would give"""
    nonstr = [a for attrs in ctx.tree.attrs for a in attrs if not isinstance(a, str)]
    hit = False
    neg = False
    for b, pos in case_bools(case):
        if pos != "attr":
            continue
        for v in nonstr:
            h, n = M.caseless_on_nonstring(b, v)
            hit = hit or h
            neg = neg or (h and n)
    explained = False
    if hit:
        exp_defect = expected_for(ctx, case, defect=True)
        explained = got == exp_defect and exp != exp_defect
    path_order = False
    if case.get("deep") and len(case.get("levels") or []) >= 2 and case["ep"] != "where":
        exp_path = expected_for(ctx, case, order="path")
        path_order = got == exp_path and exp_path != exp
    return {"caseless_predicate_on_nonstring": bool(explained), "under_not": bool(explained and neg),
            "deep_multilevel_match_path_order": bool(path_order), "entry_point": case["ep"]}


def eval_case(ctx, case):
    """-> (violations [(clause, expected, observed, features)], expected list)"""
    exp = expected_for(ctx, case)
    try:
        got = ids_of(ctx, observed_for(ctx, case))
    except Exception as ex:
        got = ["raised", type(ex).__name__]
    out = []
    if got != exp:
        out.append((CLAUSE_Q, exp, got, features(ctx, case, exp, got)))
    now = structure(ctx)
    if now != ctx.snapshot:
        # a query must not change the tree it ran on (names, attributes, child lists, parent links)
        diff = [i - 1 for i, (x, y) in enumerate(zip(ctx.snapshot, now)) if x != y]
        out.append((CLAUSE_T, "structure as built", {"changed_nodes": diff[:6]},
                    {"entry_point": case["ep"], "caseless_predicate_on_nonstring": False,
                     "deep_multilevel_match_path_order": False}))
        ctx.snapshot = now
    return out, exp


def check_bool(b, v, impl=None):
    """Interpreted vs compiled vs algebra for one predicate on one value.
    impl = (predicate object, compiled function) may be shared by the values of one predicate."""
    out = []
    if impl is None:
        p = mk_bool(b)
        impl = (p, p.to_pyfunc())
    p, f = impl
    raises = M.any_leaf_raises(b, v)
    ref = M.eval_compiled(b, v)
    try:
        comp = bool(f(v))
    except Exception as ex:
        comp = "raised %s" % type(ex).__name__
    try:
        interp = bool(p.test(v))
    except Exception as ex:
        interp = "raised %s" % type(ex).__name__
    hit, neg = M.caseless_on_nonstring(b, v)
    feats = {"caseless_predicate_on_nonstring": bool(hit and comp == M.eval_compiled(b, v, defect=True) and interp == ref),
             "under_not": False}
    feats["under_not"] = bool(feats["caseless_predicate_on_nonstring"] and neg)
    if not raises:
        # the quantifier of the interpreted-vs-compiled claim: no leaf predicate raises on this value
        if M.eval_leafwise(b, v) != ref:
            raise RuntimeError("reference boolean evaluators disagree on %r %r" % (b, v))
        if interp != ref:
            out.append(("boolean:interpreted-truth-value", ref, interp, {"caseless_predicate_on_nonstring": False, "under_not": False}))
        if interp != comp:
            out.append(("boolean:interpreted-equals-compiled", {"interpreted": interp}, {"compiled": comp}, feats))
        elif comp != ref:
            out.append(("boolean:compiled-truth-value", ref, comp, feats))
    elif M.reaches_raise(b, v):
        # a predicate whose evaluation raises counts as not matching (the compiled form is what queries use)
        if comp is not False:
            out.append(("boolean:raising-counts-as-not-matching", False, comp, {"caseless_predicate_on_nonstring": False, "under_not": False}))
    return out, raises, ref


NOFEAT = {"caseless_predicate_on_nonstring": False, "under_not": False}
DERIVE = ["and_right", "or_right", "and_left", "or_left", "not", "and_self", "or_self",
          "shared_or_and", "shared_and_or", "shared_and_then_or", "shared_or_then_and"]


def derived_expr(kind, base, c):
    """The expression that is WRITTEN when a new predicate is built from the composite `base` (and a leaf `c`);
    works on descriptors and on the real objects alike (descriptors are combined by _D)."""
    if kind == "and_right":
        return base & c
    if kind == "or_right":
        return base | c
    if kind == "and_left":
        return c & base
    if kind == "or_left":
        return c | base
    if kind == "not":
        return ~base
    if kind == "and_self":
        return base & base
    if kind == "or_self":
        return base | base
    if kind == "shared_or_and":
        return base | (base & c)            # one sub-expression object occurs twice
    if kind == "shared_and_or":
        return base & (base | c)
    if kind == "shared_and_then_or":
        return (base & c) | base
    if kind == "shared_or_then_and":
        return (base | c) & base
    raise ValueError(kind)


class _D(object):
    """Descriptor algebra: the same python expression yields the descriptor of what was written."""
    def __init__(self, d):
        self.d = d

    def __and__(self, o):
        return _D(["and", self.d, o.d])

    def __or__(self, o):
        return _D(["or", self.d, o.d])

    def __invert__(self):
        return _D(["not", self.d])


def _table(fn):
    out = []
    for v in VALUES:
        try:
            out.append(bool(fn(v)))
        except Exception as ex:
            out.append("raised %s" % type(ex).__name__)
    return out


def check_construct(case):
    """Predicate-construction history: build `base`, record what it means (interpreted and compiled), build a new
    predicate FROM it, then ask `base` again - interpreted, through a fresh compile and through the function compiled
    earlier.  A predicate object keeps the meaning of the expression it was written as; the derived predicate means
    the expression that was written, shared sub-expression objects included."""
    out = []
    bd, cd, kind = case["base"], case["c"], case["derive"]
    base = mk_bool(bd)
    c = mk_bool(cd)
    early = base.to_pyfunc()
    before_i = _table(base.test)
    before_c = _table(early)
    try:
        derived = derived_expr(kind, base, c)
    except Exception as ex:
        return [("construct:derived-matches-written-expression", "a predicate", "raised %s" % type(ex).__name__, dict(NOFEAT))]
    dd = derived_expr(kind, _D(bd), _D(cd)).d
    after_i = _table(base.test)
    try:
        after_c = _table(base.to_pyfunc())
    except Exception as ex:
        after_c = "to_pyfunc raised %s" % type(ex).__name__
    after_e = _table(early)
    want = {"interpreted": before_i, "compiled": before_c, "compiled_earlier": before_c}
    got = {"interpreted": after_i, "compiled": after_c, "compiled_earlier": after_e}
    if got != want:
        out.append(("construct:composite-unchanged-by-reuse", want, got, dict(NOFEAT, derive=kind)))
    # the recorded meaning of base is the model's (non-raising values), so "unchanged" is anchored, not relative
    for v, bi, bc in zip(VALUES, before_i, before_c):
        if not M.any_leaf_raises(bd, v):
            ref = M.eval_compiled(bd, v)
            if bi != ref or bc != ref:
                out.append(("construct:composite-unchanged-by-reuse", {"value": v, "model": ref},
                            {"interpreted": bi, "compiled": bc}, dict(NOFEAT, derive=kind)))
                break
    # the derived predicate against the model of the written expression
    try:
        impl = (derived, derived.to_pyfunc())
    except Exception as ex:
        out.append(("construct:derived-matches-written-expression", "compiles", "to_pyfunc raised %s" % type(ex).__name__,
                    dict(NOFEAT, derive=kind)))
        return out
    for v in VALUES:
        for (cl, e, o, ft) in check_bool(dd, v, impl)[0]:
            out.append(("construct:derived-matches-written-expression", {"value": v, "clause": cl, "expected": e}, o,
                        dict(NOFEAT, derive=kind)))
            return out
    return out


def check_case(case):
    kind = case.get("kind")
    if kind == "bool":
        return check_bool(case["pred"], case["value"])[0]
    if kind == "construct":
        return check_construct(case)
    if kind == "reparent":
        r = check_reparent(case)
        return r[0] if isinstance(r, tuple) else r
    if kind == "select":
        ctx = build_ctx(case["forest"], case["build"], case.get("order"))
        if ctx is None:
            return []
        return eval_case(ctx, case)[0]
    raise ValueError(kind)


def replay(case):
    out = []
    for v in check_case(case):
        clause, exp, got = v[0], v[1], v[2]
        out.append({"clause": clause, "case": case, "expected": exp, "observed": got,
                    "features": v[3] if len(v) > 3 else {}})
    return out


# ---- units -------------------------------------------------------------------------------------------

TARGET_CASES = {"quick": 90000, "thorough": 400000}        # per unit, bulk universes


def units(tier, seed):
    us = []
    # BOOL
    at = atoms(tier)
    s1, n0 = depth2_binary_rows(at)
    us.append({"u": "BOOL", "part": "small"})
    us.append({"u": "BOOL", "part": "nary"})
    us.append({"u": "BOOL", "part": "depth3"})
    k = 4 if tier == "quick" else 8
    for i in range(k):
        us.append({"u": "BOOL", "part": "construct", "shard": i, "of": k})
    rows = 6 if tier == "quick" else 16
    for lo in range(0, len(s1), rows):
        us.append({"u": "BOOL", "part": "rows", "lo": lo, "hi": min(len(s1), lo + rows)})
    # bulk tree universes
    names = ["UA", "UF", "UL", "UL2", "U1", "U2", "U3"] + (["UA3", "U2B"] if tier == "thorough" else [])
    for name in names:
        u = UNIVERSES[name]
        nq = len(universe_queries(name, tier))
        nf = forest_count(name, tier)
        per_pair = 4 + len(u["multi"])
        total = nq * nf * per_pair
        nunits = max(1, min(160, -(-total // TARGET_CASES[tier])))
        # a unit compiles its share of the queries once and builds its share of the forests once:
        # pick the 2-D split with the least repeated work (~150 us per compile, ~80 us per forest)
        best = None
        for qshards in range(1, min(nq, nunits) + 1):
            fshards = max(1, min(nf, -(-nunits // qshards)))
            cost = fshards * nq * 150 + qshards * nf * 80
            if best is None or cost < best[0]:
                best = (cost, qshards, fshards)
        _, qshards, fshards = best
        for qi in range(qshards):
            for fi in range(fshards):
                us.append({"u": name, "qs": [qi, qshards], "fs": [fi, fshards]})
    # entry points
    n = 16 if tier == "quick" else 36
    for build in ("entry", "multi", "nginx", "from_dict"):
        for i in range(n):
            us.append({"u": "UEP", "build": build, "fs": [i, n]})
    for build in ("entry", "multi", "nginx"):
        us.append({"u": "UD", "build": build})
    n = 8 if tier == "quick" else 10
    for i in range(n):
        us.append({"u": "UI", "fs": [i, n]})
    for build in ("entry", "from_dict"):
        for i in range(2):
            us.append({"u": "ULEP", "build": build, "fs": [i, 2]})
    n = 10 if tier == "quick" else 24
    for i in range(n):
        us.append({"u": "UR", "fs": [i, n]})
    return us


def unit_weight(u):
    if u["u"] == "UD":
        return 4
    if u["u"] == "UEP":
        return 3 if u["build"] == "nginx" else 2
    # the cheap history / unhashable-attribute units go first: under a wall-clock cap on a loaded machine they are done
    return {"BOOL": 2, "U2": 2, "U2B": 2, "UR": 9, "ULEP": 8, "UL": 7, "UL2": 7}.get(u["u"], 1)


# ---- exploration ---------------------------------------------------------------------------------------

_LABIDX = {}


def _label_index(kind):
    if kind not in _LABIDX:
        _LABIDX[kind] = dict((_labkey(l[0], tuple(l[1])), i) for i, l in enumerate(labels(kind)))
        if len(_LABIDX[kind]) != len(labels(kind)):
            raise RuntimeError("label alphabet %s has members that cannot be told apart" % kind)
    return _LABIDX[kind]


def _labkey(name, attrs):
    """Hashable key of a label; repr keeps 1 / "1" / [1] / True apart and works for list / dict valued attributes."""
    return (name, repr(attrs))


def run_construct_unit(unit, tier, res):
    at = atoms(tier)
    bases = [[op, x, y] for op in ("and", "or") for x in at for y in at]
    n = 0
    for bd in enumx.shard(bases, unit["shard"], unit["of"]):
        for kind in DERIVE:
            for cd in (at if kind not in ("not", "and_self", "or_self") else at[:1]):
                case = {"kind": "construct", "base": bd, "c": cd, "derive": kind}
                vio = check_construct(case)
                n += 1
                # non-trivial: the written derived expression and the base differ on some value
                dd = derived_expr(kind, _D(bd), _D(cd)).d
                tb = [M.eval_compiled(bd, v) for v in VALUES]
                td = [M.eval_compiled(dd, v) for v in VALUES]
                if tb != td:
                    res.nontrivial += 1
                res.outcomes.add("construct:%s:%s:%d:%d" % (kind, bd[0], sum(tb), sum(td)))
                for (cl, e, o, ft) in vio:
                    res.violation(cl, case, e, o, ft)
                if n == 5:
                    res.samples.append(case)
    res.evals += n
    res.stat("construct_histories", n)


def run_bool_unit(unit, tier, res):
    at = atoms(tier)
    s1, n0 = depth2_binary_rows(at)
    if unit["part"] == "small":
        preds = list(s1) + depth2_unary(at)
    elif unit["part"] == "nary":
        preds = nary(at)
    elif unit["part"] == "depth3":
        preds = depth3_spine(tier)
    elif unit["part"] == "construct":
        return run_construct_unit(unit, tier, res)
    else:
        preds = []
        for i in range(unit["lo"], unit["hi"]):
            for j, y in enumerate(s1):
                if i < n0 and j < n0:
                    continue
                preds.append(["and", s1[i], y])
                preds.append(["or", s1[i], y])
    for b in preds:
        truths = []
        nraise = 0
        p = mk_bool(b)
        impl = (p, p.to_pyfunc())
        for v in VALUES:
            vio, raises, ref = check_bool(b, v, impl)
            truths.append(ref)
            nraise += 1 if raises else 0
            res.evals += 1
            for (c, e, o, f) in vio:
                res.violation(c, {"kind": "bool", "pred": b, "value": v}, e, o, f)
        nt = len(set(truths)) > 1
        if nt:
            res.nontrivial += len(VALUES)
        res.outcomes.add("bool:%s:%d:%d" % (b[0], sum(1 for t in truths if t), nraise))
        res.stat("bool_predicates")
        res.stat("bool_pairs_nonraising", len(VALUES) - nraise)
        res.stat("bool_pairs_with_raising_leaf", nraise)
    if preds:
        res.samples.append({"kind": "bool", "pred": preds[len(preds) // 2], "value": VALUES[len(preds) % len(VALUES)]})


OPTS = ((False, False), (False, True), (True, False), (True, True))
DETAIL_FIRST = 60          # per unit: bad cases that always go through check_case (fresh build, fresh compile)
DEEP_CHAIN = {"entry": 60, "multi": 60, "nginx": 40}     # depth of the deep-chain documents (UD); the nginx
                                                          # grammar itself stops parsing at 50 nested blocks


def run_bulk_unit(unit, tier, res):
    Q = _q()
    name = unit["u"]
    u = UNIVERSES[name]
    lo, hi = u["nodes"]
    kind = universe_labels(name, tier)
    labidx = _label_index(kind)
    labs = labels(kind)
    queries = list(enumx.shard(universe_queries(name, tier), unit["qs"][0], unit["qs"][1]))
    ctxs = []
    for f in enumx.shard(forests(lo, hi, kind), unit["fs"][0], unit["fs"][1]):
        c = build_ctx(f, "entry")
        c.lab = [labidx[_labkey(c.tree.name[i], c.tree.attrs[i])] for i in range(c.tree.n)]
        m = None
        if u["multi"]:
            m = build_ctx(f, "multi")
            m.lab = c.lab
        ctxs.append((f, c, m))
    tt_cache = {}
    select = Q.select
    levelwise, pathwise = M.select_levelwise, M.select_pathwise
    audit_every = 997
    k = 0
    nt = 0
    unordered = 0
    fps = set()
    to_roots = M.to_roots
    detailed = 0
    rebuilt = {}
    for levels in queries:
        cq = Q.compile_queries(*[mk_lq(l) for l in levels])
        tts = []
        for l in levels:
            key = canon_json(l)
            if key not in tt_cache:
                tt_cache[key] = [M.level_match(l, lab[0], tuple(lab[1])) for lab in labs]
            tts.append(tt_cache[key])
        nl = len(levels)
        for (f, c, m) in ctxs:
            for (ctx, opts, build) in ((c, OPTS, "entry"), (m, u["multi"], "multi")):
                if ctx is None or not opts:
                    continue
                lab = ctx.lab
                tree = ctx.tree
                idmap = ctx.idmap
                hc = ctx.has_container

                def sat(lv, n, tts=tts, lab=lab):
                    return tts[lv][lab[n]]
                last_deep = None
                for (deep, roots) in opts:
                    k += 1
                    if deep is not last_deep:
                        # the un-rooted expectation is shared by the two `roots` values of one `deep`
                        path, trace = levelwise(tree, ctx.start, sat, nl, deep)
                        base, path2 = pathwise(tree, ctx.start, sat, nl, deep)
                        if path != path2 or sorted(path) != base:        # bulk start lists are in ascending pre-order
                            raise RuntimeError("reference formulations disagree on %s" % canon_json([f, levels, deep, build]))
                        last_deep = deep
                        matched = sum(t[1] for t in trace)
                        seen = sum(t[0] for t in trace)
                        nontriv = 0 < matched < seen
                        if path != base:
                            unordered += 1
                    exp = to_roots(tree, base, hc) if roots else base          # document order
                    try:
                        got = [idmap.get(id(o), "?") for o in select(cq, ctx.start_objs, deep=deep, roots=roots).children]
                    except Exception:
                        got = None
                    if nontriv:
                        nt += 1
                    bad = got != exp
                    if bad or k % audit_every == 0:
                        case = {"kind": "select", "forest": f, "build": build, "ep": "compiled",
                                "levels": levels, "deep": deep, "roots": roots}
                        if bad and detailed >= DETAIL_FIRST:
                            vio = eval_case(ctx, case)[0]            # same checker, on the objects already built
                        else:
                            vio = check_case(case)                   # fresh build, fresh compile
                            if bad:
                                detailed += 1
                        qvio = [v for v in vio if v[0] == CLAUSE_Q]
                        if bad and not qvio:
                            if structure(ctx) != ctx.snapshot:
                                break        # an earlier call of this block changed the tree: judged just below
                            raise RuntimeError("fast path and checker disagree (fast: %r != %r) on %s" % (got, exp, canon_json(case)))
                        if qvio and not bad:
                            raise RuntimeError("checker reports what the fast path missed on %s" % canon_json(case))
                        for (cl, e, o, ft) in vio:
                            res.violation(cl, case, e, o, ft)
                        if not bad:
                            res.stat("fast_path_audited")
                    fps.add((nl, deep, roots, build, min(len(exp), 3), len(trace)))
                # a query must leave the tree alone: the objects are reused by the following queries
                if structure(ctx) != ctx.snapshot:
                    case = {"kind": "select", "forest": f, "build": build, "ep": "compiled", "levels": levels,
                            "deep": opts[-1][0], "roots": opts[-1][1],
                            "before": [{"ep": "compiled", "levels": levels, "deep": d, "roots": r} for (d, r) in opts[:-1]]}
                    vio = [v for v in check_case(case) if v[0] == CLAUSE_T]
                    if not vio:
                        raise RuntimeError("tree changed under the fast path but not in the checker on %s" % canon_json(case))
                    for (cl, e, o, ft) in vio:
                        res.violation(cl, case, e, o, ft)
                    fresh = build_ctx(f, build)
                    fresh.lab = ctx.lab
                    rebuilt[(id(f), build)] = fresh
        if rebuilt:
            ctxs = [(f, rebuilt.pop((id(f), "entry"), c), rebuilt.pop((id(f), "multi"), m)) for (f, c, m) in ctxs]
            rebuilt = {}
    res.evals += k
    res.nontrivial += nt
    if unordered:
        res.stat("deep_multilevel_match_path_order_differs_from_document_order", unordered)
    for fp in fps:
        res.outcomes.add("%s:%d:%d%d:%s:%d:%d" % ((name,) + fp[:3] + (fp[3][0],) + fp[4:]))
    res.maxi("max_nodes_%s" % name, hi)
    res.stat("cases_%s" % name, k)
    if queries and ctxs:
        res.samples.append({"kind": "select", "forest": ctxs[len(ctxs) // 2][0], "build": "entry", "ep": "compiled",
                            "levels": queries[len(queries) // 2], "deep": True, "roots": False})


# entry-point universe ----------------------------------------------------------------------------------

def ep_levels(tier):
    one = [["name", nq_lit("a")], ["name", NONE], ["tuple", nq_lit("a"), ["lit", "x"]], ["tuple", NONE, ["lit", 1]],
           ["name", ["bool", ["not", P("eq", "a")]]], ["tuple", NONE, ["bool", ["not", P("ieq", "A")]]],
           ["tuple", nq_lit("b"), ["lit", "x"], ["bool", P("lt", 2)]], ["entry", ["all", ["lit", "x"]]],
           ["name", ["fn", "raise"]],
           # predicates that raise on SOME attributes only: the verdict is per attribute, through every entry point
           ["tuple", NONE, ["fn", "str_x"]], ["tuple", nq_lit("b"), ["fn", "lt2"], ["lit", "x"]],
           ["entry", ["not", ["any", ["fn", "lt2"]]]], ["tuple", NONE, ["bool", ["not", P("startswith", "x")]]]]
    two = [["name", nq_lit("a")], ["name", NONE], ["tuple", NONE, ["lit", 1]], ["name", ["bool", ["not", P("eq", "a")]]]]
    if tier == "thorough":
        one += [["name", nq_lit("b")], ["name", nq_lit("A")], ["tuple", NONE, ["bool", P("istartswith", "X")]],
                ["tuple", nq_lit("a"), ["entry", ["not", ["any", ["lit", 1]]]]], ["name", ["bool", P("ieq", "A")]]]
        two += [["name", nq_lit("b")], ["tuple", NONE, ["lit", "x"]]]
    return one, two


def ep_wheres(tier):
    args = [["q", ["name", nq_lit("a")]], ["q", ["name", NONE]], ["q", ["tuple", nq_lit("b"), ["lit", 1]]],
            ["q", ["tuple", NONE, ["bool", ["not", P("ieq", "A")]]]], ["q", ["name", ["bool", ["not", P("eq", "a")]]]]]
    objs = [["q", ["name", nq_lit("a")]], ["not", ["q", ["name", nq_lit("a")]]],
            ["or", ["q", ["tuple", nq_lit("a"), ["lit", "x"]]], ["q", ["name", nq_lit("b")]]],
            ["and", ["q", ["name", nq_lit("a")]], ["not", ["q", ["tuple", NONE, ["lit", 1]]]]],
            ["fn", "raise"], ["fn", "has_kids"],
            ["q", ["tuple", NONE, ["fn", "str_x"]]], ["not", ["q", ["tuple", NONE, ["fn", "lt2"]]]]]
    return args, objs


def ep_cases(tier, build):
    """Every (entry point, query, options) applied to one built forest (descriptors without the forest)."""
    one, two = ep_levels(tier)
    pres = [[["name", NONE]], [["name", nq_lit("a")]]]
    out = []
    for l in one:
        for deep, roots in OPTS:
            out.append({"ep": "select", "levels": [l], "deep": deep, "roots": roots})
        for roots in (False, True):
            out.append({"ep": "find", "levels": [l], "deep": True, "roots": roots})
        out.append({"ep": "getitem", "levels": [l], "deep": False, "roots": False})
    two2 = two[:3] if tier == "quick" else two
    for l1 in two2:
        for l2 in two2:
            for deep, roots in OPTS:
                out.append({"ep": "select", "levels": [l1, l2], "deep": deep, "roots": roots})
            for roots in (False, True):
                out.append({"ep": "find", "levels": [l1, l2], "deep": True, "roots": roots})
    if build in ("entry", "multi", "nginx"):
        for pre in pres:
            chain_levels = two if tier == "thorough" else two[:2]
            for l in chain_levels + [["tuple", nq_lit("b"), ["lit", "x"], ["bool", P("lt", 2)]], ["tuple", NONE, ["fn", "str_x"]]]:
                for deep, roots in OPTS:
                    out.append({"ep": "chain", "pre": pre, "levels": [l], "deep": deep, "roots": roots})
                out.append({"ep": "chain_getitem", "pre": pre, "levels": [l], "deep": False, "roots": False})
            args, objs = ep_wheres(tier)
            for wq in args:
                out.append({"ep": "where", "pre": pre, "wq": wq, "where_style": "args"})
            for wq in objs:
                out.append({"ep": "where", "pre": pre, "wq": wq, "where_style": "object"})
    if build == "nginx":
        for l in one:
            for roots in (False, True):
                out.append({"ep": "find_all", "levels": [l], "deep": True, "roots": roots})
    out += ep_histories(tier, build)
    return out


HIST = [["name", nq_lit("a")], ["name", NONE], ["tuple", nq_lit("a"), ["lit", "x"]], ["tuple", NONE, ["lit", 1]],
        ["name", ["bool", ["not", P("eq", "a")]]]]


def ep_histories(tier, build):
    """Two-step histories on ONE set of objects: a first query (deep and roots on, the options that touch the most)
    and then the judged query; the chained variants run both steps on the same Result object; `share` reuses the
    identical python query objects in both steps.  The expectation of the judged step does not depend on the first."""
    out = []
    if build == "from_dict":
        return out
    judged = ((False, False), (True, True))
    hs = HIST if tier == "thorough" and build != "nginx" else HIST[:3]
    for a in hs:
        for b in hs:
            for deep, roots in judged:
                out.append({"ep": "select", "levels": [b], "deep": deep, "roots": roots, "share": a == b,
                            "before": [{"ep": "select", "levels": [a], "deep": True, "roots": True}]})
    two = (HIST[:2] + HIST[3:]) if tier == "thorough" else [HIST[0], HIST[1], HIST[3]]
    for pre in ([["name", NONE]], [["name", nq_lit("a")]]):
        for a in two:
            for b in two:
                for deep, roots in judged:
                    out.append({"ep": "chain", "pre": pre, "levels": [b], "deep": deep, "roots": roots, "share": a == b,
                                "before": [{"ep": "chain", "pre": pre, "levels": [a], "deep": True, "roots": True},
                                           {"ep": "where", "pre": pre, "wq": ["q", ["name", NONE]], "where_style": "args"}]})
        if build == "nginx" or tier == "quick":
            break
    return out


def ep_forests(tier, build):
    if tier == "quick":
        return forests(1, 3, "ep")
    if build in ("entry", "multi"):
        return itertools.chain(forests(1, 3, "red7"), forests(4, 4, "names2"))
    return forests(1, 3, "red7")


def run_ep_unit(unit, tier, res):
    build = unit["build"]
    cases = ep_cases(tier, build)
    n = 0
    built = 0
    for f in enumx.shard(ep_forests(tier, build), unit["fs"][0], unit["fs"][1]):
        ctx = build_ctx(f, build)
        if ctx is None:
            res.stat("forests_not_expressible_%s" % build)
            continue
        built += 1
        if canon_json(_strip(ctx.tree)) != canon_json(_shape_only(f)):
            res.stat("builder_readback_differs_%s" % build)
        for proto in cases:
            case = dict(proto)
            case.update({"kind": "select", "forest": f, "build": build})
            vio, exp = eval_case(ctx, case)
            n += 1
            res.evals += 1
            if exp and len(exp) < ctx.tree.n:
                res.nontrivial += 1
            res.outcomes.add("UEP:%s:%s%s:%d%d:%d" % (build[0], case["ep"], "+h" if case.get("before") else "",
                                                      bool(case.get("deep")), bool(case.get("roots")), min(len(exp), 3)))
            for (cl, e, o, ft) in vio:
                res.violation(cl, case, e, o, ft)
                if cl == CLAUSE_T:
                    ctx = build_ctx(f, build)            # continue on intact objects
            if n == 7:
                res.samples.append(case)
    res.stat("cases_UEP_%s" % build, n)
    res.stat("forests_built_%s" % build, built)


def deep_forests(depth):
    """Documents far deeper than the bulk bound: a chain of `depth` nested nodes whose names repeat a pattern
    of period 3 over {a, b}, and the same chain with an extra leaf `b 1` in front of every nested node."""
    out = []
    for pat in itertools.product("ab", repeat=3):
        for comb in (False, True):
            node = [pat[(depth - 1) % 3], [1], []]
            for d in range(depth - 2, -1, -1):
                kids = ([["b", [1], []]] if comb else []) + [node]
                node = [pat[d % 3], [], kids]
            out.append([node])
    return out


def run_deep_unit(unit, tier, res):
    build = unit["build"]
    lqs = lq_names("quick")
    queries = [list(t) for n in (1, 2, 3, 4) for t in itertools.product(lqs, repeat=n)]      # one level beyond the bulk bound
    n = 0
    for f in deep_forests(DEEP_CHAIN[build]):
        ctx = build_ctx(f, build)
        for levels in queries:
            for deep, roots in OPTS:
                case = {"kind": "select", "forest": f, "build": build, "ep": "select", "levels": levels,
                        "deep": deep, "roots": roots}
                vio, exp = eval_case(ctx, case)
                n += 1
                if exp and len(exp) < ctx.tree.n:
                    res.nontrivial += 1
                res.outcomes.add("UD:%s:%d:%d%d:%d" % (build[0], len(levels), deep, roots, min(len(exp), 3)))
                for (cl, e, o, ft) in vio:
                    res.violation(cl, case, e, o, ft)
                    if cl == CLAUSE_T:
                        ctx = build_ctx(f, build)
    res.evals += n
    res.stat("cases_UD_%s" % build, n)
    res.maxi("max_depth_UD_%s" % build, DEEP_CHAIN[build])


LEAVES = [["a", [], []], ["b", [], []], ["b", [], [["a", [], []]]]]


def inter_forests(tier):
    """Two or three documents with 2..4 sections in all; under every section one of LEAVES (quick: the two plain
    leaves when there are four sections).  Yields (forest, pre-order numbers of the sections)."""
    dists = [(1, 1), (1, 2), (2, 1), (1, 1, 1), (2, 2), (1, 3), (3, 1), (1, 1, 2), (1, 2, 1), (2, 1, 1)]
    for dist in dists:
        nsec = sum(dist)
        opts = LEAVES[:2] if (tier == "quick" and nsec == 4) else LEAVES
        for pick in itertools.product(range(len(opts)), repeat=nsec):
            it = iter(pick)
            forest = [["a", [], [["a", [], [opts[next(it)]]] for _ in range(n)]] for n in dist]
            tree = M.Tree(forest)
            yield forest, [k for t in tree.tops for k in tree.kids[t]]


def inter_cases():
    a, none = ["name", nq_lit("a")], ["name", NONE]
    out = []
    for l in (a, none):
        for deep, roots in OPTS:
            out.append({"ep": "select", "levels": [l], "deep": deep, "roots": roots})
    for deep in (False, True):
        out.append({"ep": "select", "levels": [none, a], "deep": deep, "roots": True})
        out.append({"ep": "chain", "pre": [none], "levels": [a], "deep": deep, "roots": True})
    for roots in (False, True):
        out.append({"ep": "find", "levels": [a], "deep": True, "roots": roots})
    out.append({"ep": "find", "levels": [none, a], "deep": True, "roots": True})
    out.append({"ep": "getitem", "levels": [a], "deep": False, "roots": False})
    return out


def run_inter_unit(unit, tier, res):
    """UI: a Result whose children interleave the sections of two or three documents in EVERY order."""
    protos = inter_cases()
    n = 0
    split = 0
    for (f, secs) in enumx.shard(inter_forests(tier), unit["fs"][0], unit["fs"][1]):
        for order in itertools.permutations(secs):
            ctx = build_ctx(f, "inter", list(order))
            for proto in protos:
                case = dict(proto)
                case.update({"kind": "select", "forest": f, "build": "inter", "order": list(order)})
                vio, exp = eval_case(ctx, case)
                n += 1
                if case["roots"]:
                    # non-trivial: the results of one document are not contiguous, so adjacent-only
                    # de-duplication and first-occurrence de-duplication differ
                    raw = expected_for(ctx, dict(case, roots=False))
                    tops = [ctx.tree.top[r] for r in raw]
                    runs = sum(1 for i, t in enumerate(tops) if i == 0 or tops[i - 1] != t)
                    if runs > len(set(tops)):
                        res.nontrivial += 1
                        split += 1
                res.outcomes.add("UI:%s:%d%d:%d:%d" % (case["ep"], case["deep"], case["roots"], len(case["levels"]), min(len(exp), 4)))
                for (cl, e, o, ft) in vio:
                    res.violation(cl, case, e, o, ft)
                    if cl == CLAUSE_T:
                        ctx = build_ctx(f, "inter", list(order))
                if n == 11:
                    res.samples.append(case)
    res.evals += n
    res.stat("cases_UI", n)
    res.stat("cases_UI_roots_with_noncontiguous_documents", split)


# unhashable attributes through the public entry points -----------------------------------------------------

def ulep_levels():
    sub = unhash_alts()[:6]
    out = [["tuple", nq_lit("a"), a1, a2] for a1 in sub for a2 in sub]
    out += [["tuple", NONE, ["lit", "Y"], ["lit", 1], ["lit", "x"]], ["tuple", NONE, ["lit", "x"]],
            ["tuple", NONE, ["lit", ["x"]]], ["entry", ["any", ["lit", "x"]]], ["name", nq_lit("a")]]
    return out


def run_ulep_unit(unit, tier, res):
    """ULEP: the UL documents (one node, <= 3 attributes, list / dict valued ones among them) built with Entry and
    through from_dict, queried through select / find / []."""
    build = unit["build"]
    protos = []
    for l in ulep_levels():
        protos.append({"ep": "select", "levels": [l], "deep": False, "roots": False})
        protos.append({"ep": "select", "levels": [l], "deep": True, "roots": True})
        protos.append({"ep": "find", "levels": [l], "deep": True, "roots": False})
        protos.append({"ep": "getitem", "levels": [l], "deep": False, "roots": False})
    n = 0
    for f in enumx.shard(forests(1, 1, "unhash3"), unit["fs"][0], unit["fs"][1]):
        ctx = build_ctx(f, build)
        if ctx is None:
            continue
        unhashable = any(isinstance(a, (list, dict)) for attrs in ctx.tree.attrs for a in attrs)
        for proto in protos:
            case = dict(proto)
            case.update({"kind": "select", "forest": f, "build": build})
            vio, exp = eval_case(ctx, case)
            n += 1
            if exp and unhashable:
                res.nontrivial += 1         # a node that carries an unhashable attribute is a result
            res.outcomes.add("ULEP:%s:%s:%d:%d" % (build[0], case["ep"], unhashable, min(len(exp), 2)))
            for (cl, e, o, ft) in vio:
                res.violation(cl, case, e, o, ft)
                if cl == CLAUSE_T:
                    ctx = build_ctx(f, build)
            if n == 9:
                res.samples.append(case)
    res.evals += n
    res.stat("cases_ULEP_%s" % build, n)


# re-parenting histories ---------------------------------------------------------------------------------------

CLAUSE_R = "roots:current-ultimate-ancestor-after-reparenting"
RP_METHODS = ["wrap", "nest", "twice", "split", "flatten_top", "flatten_nested"]
RP_FIRST = ["none", "select_roots", "find_roots", "find_a_roots", "root_attr", "result_roots"]
NEW, NEW2 = -1, -2          # identities of the containers of the final document(s)


def rp_judged():
    a, b, none = ["name", nq_lit("a")], ["name", nq_lit("b")], ["name", NONE]
    out = []
    for levels in ([none], [a], [b], [none, none], [a, b]):
        for deep in (False, True):
            out.append({"ep": "select", "levels": levels, "deep": deep, "roots": True})
    out.append({"ep": "find", "levels": [b], "deep": True, "roots": True})
    out.append({"ep": "find", "levels": [none], "deep": True, "roots": False})
    out.append({"ep": "root_attr"})
    out.append({"ep": "result_roots"})
    return out


def rp_forests(tier):
    """The document that is queried first and re-parented afterwards: every forest with <= 3 nodes (thorough: 4)
    over the names a, b (no attributes)."""
    return forests(1, 3 if tier == "quick" else 4, "names2")


def _rp_first(doc, nodes, kind):
    """The first step of the history, on the document as it was built; -> (observed, expected) as lists of labels."""
    none = None
    if kind == "none":
        return [], []
    if kind == "select_roots":
        got = list(doc.select(none, roots=True).children)
        exp = [doc] if doc.children else []
    elif kind == "find_roots":
        got = list(doc.find(none, roots=True).children)
        exp = [doc] if nodes else []
    elif kind == "find_a_roots":
        got = list(doc.find("a", roots=True).children)
        exp = [doc] if any(o.name == "a" for o in nodes) else []
    elif kind == "root_attr":
        got = [o.root for o in nodes]
        exp = [doc] * len(nodes)
    elif kind == "result_roots":
        got = list(doc.find(none).roots.children)
        exp = [doc] if nodes else []
    else:
        raise ValueError(kind)
    lab = lambda xs: ["doc" if x is doc else "other:%s" % type(x).__name__ for x in xs]
    return lab(got), lab(exp)


def _preorder(tops):
    out = []

    def walk(o):
        out.append(o)
        for k in o.children:
            walk(k)
    for t in tops:
        walk(t)
    return out


def check_reparent(case):
    """History in one process: build a document, ask it for roots (step 1), move its nodes into another document
    the way the combiners and the tree builders do (step 2: Entry(children=...) wrapping, nesting under a new
    section, twice in a row, split over two documents, spliced in place of an include node by insights.core.flatten),
    query the new document (step 3).  Step 3 is judged against the reference model applied to the FINAL tree, read
    back from the real objects through children lists; the ultimate ancestor of a node is the container of the
    document that holds it NOW."""
    Q = _q()
    out = []
    method, first = case["method"], case["first"]
    feats = {"reparent": method, "first": first, "parent_links_follow_children": True, "entry_point": case["ep"],
             "caseless_predicate_on_nonstring": False, "deep_multilevel_match_path_order": False}

    def mk(t):
        return Q.Entry(name=t[0], attrs=tuple(t[1]), children=[mk(k) for k in t[2]])
    old = Q.Entry(children=[mk(t) for t in case["forest"]])
    old_nodes = _preorder(old.children)
    got1, exp1 = _rp_first(old, old_nodes, first)
    if got1 != exp1:
        out.append((CLAUSE_Q, exp1, got1, dict(feats, step=1)))
    names = {id(old): "old-doc"}
    # step 2
    new2 = None
    if method == "wrap":
        new = Q.Entry(children=old.children)
    elif method == "nest":
        new = Q.Entry(children=[Q.Entry(name="b", attrs=(1,)), Q.Entry(name="a", attrs=("x",), children=list(old.children))])
    elif method == "twice":
        mid = Q.Entry(children=list(old.children))
        names[id(mid)] = "mid-doc"
        got1, exp1 = _rp_first(mid, old_nodes, first)
        if got1 != exp1:
            out.append((CLAUSE_R, exp1, got1, dict(feats, step=2)))
        new = Q.Entry(children=[Q.Entry(name="a", children=list(mid.children))])
    elif method == "split":
        if len(old.children) < 2:
            return out
        new = Q.Entry(children=list(old.children[:1]))
        new2 = Q.Entry(children=list(old.children[1:]))
    elif method in ("flatten_top", "flatten_nested"):
        from insights.core import flatten
        inc = Q.Entry(name="inc", attrs=("f",), children=[])
        if method == "flatten_top":
            main = Q.Entry(children=[Q.Entry(name="b", attrs=(1,)), inc])
        else:
            main = Q.Entry(children=[Q.Entry(name="a", children=[inc]), Q.Entry(name="b", attrs=(1,))])
        names[id(main)] = "main-doc"
        for node in main.find("inc").children:           # as ConfigCombiner.__init__ does for every include node
            node.children.extend(old.children)
        new = Q.Entry(children=flatten(main.children, "inc"))
    else:
        raise ValueError(method)
    # the FINAL tree, read back through children lists
    docs = [new] + ([new2] if new2 is not None else [])
    tops = [t for d in docs for t in d.children]
    objs = []
    back = []
    coherent = [True]

    def walk(o, into, parent):
        objs.append(o)
        if o.parent is not parent:
            coherent[0] = False
        node = [o.name, list(o.attrs), []]
        into.append(node)
        for k in o.children:
            walk(k, node[2], o)
    for d in docs:
        for t in d.children:
            walk(t, back, d)
    if len(set(id(o) for o in objs)) != len(objs):
        return out                                        # a node listed twice: not a tree, not judged
    feats["parent_links_follow_children"] = coherent[0]
    tree = M.Tree(back)
    idmap = dict((id(o), i) for i, o in enumerate(objs))
    idmap[id(new)] = NEW
    if new2 is not None:
        idmap[id(new2)] = NEW2
    rootid = {}
    for d in docs:
        for t in d.children:
            rootid[idmap[id(t)]] = idmap[id(d)]

    def ident(o):
        return idmap.get(id(o), names.get(id(o), "?:%s" % type(o).__name__))
    ctx = Ctx()
    ctx.tree, ctx.forest, ctx.has_container = tree, back, True
    X = new if new2 is None else Q.Result(children=docs)        # a Result queries the children of its children
    start = list(tree.tops)

    def by_parent_links(o):
        p = o.parent
        while p is not None and p.parent is not None:
            p = p.parent
        return ident(p)
    follow = None
    ep = case["ep"]
    try:
        if ep in ("select", "find"):
            levels = case["levels"]
            deep, roots = bool(case["deep"]), bool(case["roots"])
            res = model_select(ctx, start, levels, deep, False)[0]
            exp = M.dedup([rootid[tree.top[r]] for r in res]) if roots else res
            qs = [mk_lq(l) for l in levels]
            r = X.find(*qs, roots=roots) if ep == "find" else X.select(*qs, deep=deep, roots=roots)
            got = [ident(o) for o in r.children]
            if roots:
                follow = M.dedup([by_parent_links(objs[i]) for i in res])
        elif ep == "root_attr":
            exp = [rootid[tree.top[i]] for i in range(tree.n)]
            got = [ident(o.root) for o in objs]
            follow = [by_parent_links(o) for o in objs]
        elif ep == "result_roots":
            exp = M.dedup([rootid[tree.top[i]] for i in range(tree.n)])
            got = [ident(o) for o in X.find(None).roots.children]
            follow = M.dedup([by_parent_links(o) for o in objs])
        else:
            raise ValueError(ep)
    except Exception as ex:
        if isinstance(ex, (ValueError, RuntimeError)):
            raise
        got = ["raised", type(ex).__name__]
    if got != exp:
        # narrow attribution: the spliced nodes still carry the parent links of the document they came from (the
        # children lists say otherwise) and the answer is exactly what following those links gives
        stale = (not coherent[0]) and follow is not None and got == follow
        out.append((CLAUSE_R if (case.get("roots") or ep in ("root_attr", "result_roots")) else CLAUSE_Q, exp, got,
                    dict(feats, step=3, roots_follow_parent_links_not_updated_by_flatten=bool(stale and method == "flatten_nested"))))
    case_nt = first != "none" and bool(exp)
    return out, case_nt, len(exp)


def run_reparent_unit(unit, tier, res):
    judged = rp_judged()
    n = 0
    for f in enumx.shard(rp_forests(tier), unit["fs"][0], unit["fs"][1]):
        for method in RP_METHODS:
            for first in RP_FIRST:
                for j in judged:
                    case = dict(j)
                    case.update({"kind": "reparent", "forest": f, "method": method, "first": first})
                    r = check_reparent(case)
                    if not isinstance(r, tuple):
                        res.stat("reparent_histories_not_applicable")
                        continue
                    vio, nt, nexp = r
                    n += 1
                    if nt:
                        res.nontrivial += 1
                    res.outcomes.add("UR:%s:%s:%s:%d" % (method, first, case["ep"], min(nexp, 2)))
                    for (cl, e, o, ft) in vio:
                        res.violation(cl, case, e, o, ft)
                    if n == 13:
                        res.samples.append(case)
    res.evals += n
    res.stat("cases_UR", n)


def _strip(tree):
    return [[tree.name[i], list(tree.attrs[i]), tree.parent[i]] for i in range(tree.n)]


def _shape_only(forest):
    return _strip(M.Tree(forest))


def run_unit(unit, tier):
    res = Result()
    if unit["u"] == "BOOL":
        run_bool_unit(unit, tier, res)
    elif unit["u"] == "UEP":
        run_ep_unit(unit, tier, res)
    elif unit["u"] == "UD":
        run_deep_unit(unit, tier, res)
    elif unit["u"] == "UI":
        run_inter_unit(unit, tier, res)
    elif unit["u"] == "ULEP":
        run_ulep_unit(unit, tier, res)
    elif unit["u"] == "UR":
        run_reparent_unit(unit, tier, res)
    else:
        run_bulk_unit(unit, tier, res)
    return res


TECHNIQUE = ("bounded exhaustive enumeration of forests x multi-level queries x options x entry points executed against the "
             "real query engine and compared with a two-formulation reference model; every predicate of depth <= 2 "
             "compared interpreted vs compiled on every node value")
LEVEL_TEXT = ("Every forest within the node bound, every query of the stated forms and every option combination is executed "
              "against the real code and the returned node identities are compared with a reference model (level-wise and "
              "path-wise formulations agree on every case). The query language is compositional, so the space is cut into "
              "sub-universes that are each enumerated completely; no sampling decides anything. Attribute tuples with unhashable "
              "(list / dict) members are enumerated with the matching attribute in every position against multi-alternative "
              "tuple queries; three-step histories (roots query, re-parenting through Entry(children=...) / flatten, roots "
              "query on the new document) are enumerated over all documents <= 3 nodes.")
LEVEL_NOTE = ("Trusted: ref/c20_query_model.py (readings written at its top); bounded by nodes <= 4/5, depth <= 3, <= 3 levels, "
              "predicate depth <= 2 (3 on a mixed-case spine), the stated name/attribute alphabets; Entry.where, choose, "
              "upto, nth (the statement names select/find/[]), shared sub-trees and zero-level select() are not covered.")
