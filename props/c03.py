"""C03 - a failing component affects only its dependents and is always accounted for.

Fault enumeration: a family of graph shapes (spec chains, diamonds, multi-output parsers,
spec-less datasources, plain components) x every placement of <= k faults of every kind x
skip recording on/off x raising observers, executed with the real engine and judged by a
declarative oracle (isolation via the reference evaluator, accounting via allowed keys).
"""
import itertools

from mc.result import Result
from mc import enumx

ID = "C03"
LEVEL = "fault_enumeration"
TECHNIQUE = ("exhaustive fault-placement enumeration (every subset of <= k components x every fault kind, per-element faults of "
             "multi-output parsers, raising observers, skip recording on/off) on a family of real component graphs")
LEVEL_TEXT = ("Every placement of <= 2 (quick) / <= 3 (thorough) faults from {deliberate skip, content error, failed command, timeout, "
              "ValueError, exception whose class defines __eq__} on every node of 9 graph shapes (implementation -> registry point -> "
              "parser (single / multi-output, continue_on_error on/off) -> combiner -> rule, diamonds, spec-less datasources, plain "
              "components), with skip recording on and off, with raising observers, under a HostContext in the main thread (SIGALRM timeouts armed) "
              "and followed by a second evaluation of the same component objects with the faults healed, is executed by the real engine. Oracle: no "
              "exception escapes, every node gets its observer turn, unaffected components produce the reference value, every raised "
              "exception instance is recorded (with traceback) under an allowed key, nothing else is recorded, no timeout alarm stays armed "
              "and the healed evaluation is complete and records nothing.")
LEVEL_NOTE = ("Bounded by the shape family and fault count. A content error (subclass of the skip signal) is required to be recorded only "
              "where the component has somewhere documented to record it (plugin types: itself; datasource: the specs it implements).")
RULE = ("(9 hand-written graph shapes + every typed DAG with <= 4/5 nodes over {datasource, registry point, parser, combiner, plain} "
        "with a single fault) x fault placement x store_skips x observer mode; non-trivial = at least one fault actually fired (a body raised); "
        "distinct cases = distinct (shape, placement, switches) descriptors, enumerated without repetition")
ASSUMPTIONS = ["reference evaluator harness/graphs.py:ref_eval for the isolation clause",
               "ContentException: weaker reading (see LEVEL_NOTE)"]
BOUNDS = {"quick": {"max_faults": 2, "generated_shapes_max_nodes": 4}, "thorough": {"max_faults": 3, "generated_shapes_max_nodes": 5}}
CAP_S = {"quick": 300, "thorough": 3000}

KINDS = ["skip", "content", "cpe", "timeout", "error", "uneq", "badstr", "blacklisted"]


def SHAPES():
    ds = lambda **k: dict({"t": "datasource", "decl": []}, **k)
    return {
        "chain": [ds(), {"t": "rp", "impl": [0]}, {"t": "parser", "decl": [1]}, {"t": "combiner", "decl": [2]},
                  {"t": "rule", "decl": [3]}],
        "two-impl": [ds(), ds(), {"t": "rp", "impl": [0, 1]}, {"t": "parser", "decl": [2]},
                     {"t": "rule", "decl": [3], "opt": [2]}],
        "diamond": [ds(), {"t": "rp", "impl": [0]}, {"t": "parser", "decl": [1]}, {"t": "parser", "decl": [1]},
                    {"t": "combiner", "decl": [[2, 3]]}, {"t": "rule", "decl": [4]}],
        "specless": [ds(), {"t": "plain", "decl": [0]}, {"t": "rule", "decl": [1]}, {"t": "plain", "decl": []},
                     {"t": "component", "decl": [], "opt": [0, 3]}],
        "multi": [ds(out="list:3"), {"t": "rp", "impl": [0], "multi_output": True}, {"t": "parser", "decl": [1], "elems": ["value", "value", "value"]},
                  {"t": "combiner", "decl": [2]}, {"t": "rule", "decl": [3]}],
        "multi-nocoe": [ds(out="list:3"), {"t": "rp", "impl": [0], "multi_output": True},
                        {"t": "parser", "decl": [1], "elems": ["value", "value", "value"], "coe": False},
                        {"t": "combiner", "decl": [2]}],
        "plain-mix": [{"t": "plain", "decl": []}, {"t": "plain", "decl": []}, {"t": "condition", "decl": [0, [1]]},
                      {"t": "rule", "decl": [2], "opt": [1]}, {"t": "component", "decl": [], "opt": [3]}],
        "ds-chain": [ds(), {"t": "datasource", "decl": [0]}, {"t": "rp", "impl": [1]}, {"t": "parser", "decl": [2]},
                     {"t": "plain", "decl": []}],
        "two-specs": [ds(), {"t": "rp", "impl": [0]}, {"t": "rp", "impl": [0]}, {"t": "parser", "decl": [1, 2]},
                      {"t": "combiner", "decl": [3], "opt": [1]}],
    }


def fault_sites(nodes):
    """(node index, element index | None) pairs where a fault can be placed."""
    sites = []
    for i, nd in enumerate(nodes):
        if nd["t"] == "rp":
            continue
        if nd.get("elems") is not None:
            sites.extend((i, k) for k in range(len(nd["elems"])))
        else:
            sites.append((i, None))
    return sites


def apply_faults(nodes, placement):
    out = [dict(nd) for nd in nodes]
    for (i, k), kind in placement:
        if k is None:
            out[i]["out"] = kind
        else:
            e = list(out[i]["elems"])
            e[k] = kind
            out[i]["elems"] = e
    return out


GEN_TYPES = ["datasource", "rp", "parser", "combiner", "plain"]
GEN_KINDS = ["content", "cpe", "timeout", "error"]


def gen_shapes(n):
    """All typed DAGs with n nodes over GEN_TYPES with required edges only, subject to the typing rules of the
    framework: a registry point's dependencies are its implementations (datasources only), a parser needs a first
    dependency. Shapes are not hand-picked: this closes the gap between the shape family and 'every graph'."""
    pairs = [(j, i) for i in range(n) for j in range(i)]
    for types in itertools.product(GEN_TYPES, repeat=n):
        if "rp" not in types and "datasource" not in types:
            continue                      # plain-only graphs are covered by the hand-written shapes and by C01/C02
        for bits in itertools.product([0, 1], repeat=len(pairs)):
            deps = [[] for _ in range(n)]
            for (j, i), b in zip(pairs, bits):
                if b:
                    deps[i].append(j)
            ok = True
            nodes = []
            for i, t in enumerate(types):
                if t == "rp":
                    if any(types[j] != "datasource" for j in deps[i]):
                        ok = False
                        break
                    nodes.append({"t": "rp", "impl": deps[i]})
                elif t == "parser":
                    if not deps[i]:
                        ok = False
                        break
                    nodes.append({"t": "parser", "decl": deps[i]})
                else:
                    nodes.append({"t": t, "decl": deps[i]})
            if ok:
                yield nodes


def units(tier, seed):
    us = []
    nmax = 4 if tier == "quick" else 5
    for n in range(2, nmax + 1):
        chunks = 1 if n < 4 else (24 if n == 4 else 400)
        for c in range(chunks):
            us.append({"part": "gen", "n": n, "chunk": c, "of": chunks})
    for name in SHAPES():
        for ss in (False, True):
            for obs in ("none", "raising-global", "raising-typed", "raising-partial", "raising-callable-object"):
                us.append({"shape": name, "store_skips": ss, "observer": obs})
    return us


def allowed_keys(nodes, i):
    """{i} plus registry points i implements (datasource: through dependents) or is built on
    (others: through dependencies)."""
    out = {i}
    t = nodes[i]["t"]
    from harness.graphs import all_deps
    if t == "datasource":
        # "the specs it implements": every registry point reachable through the chain of DEPENDENTS, whatever
        # the types in between (a helper datasource feeding a parser feeding the implementing datasource is
        # built into that spec); registry points that are merely siblings under a common consumer are foreign
        stack = [i]
        seen = set()
        while stack:
            x = stack.pop()
            for j, nd in enumerate(nodes):
                if j in seen:
                    continue
                if x in all_deps(nd):
                    seen.add(j)
                    if nd["t"] == "rp":
                        out.add(j)
                    else:
                        stack.append(j)
    else:
        stack = [i]
        seen = set()
        while stack:
            x = stack.pop()
            for j in all_deps(nodes[x]):
                if j in seen:
                    continue
                seen.add(j)
                if nodes[j]["t"] == "rp":
                    out.add(j)
                else:
                    stack.append(j)
    return out


def check_case(case):
    """case = {"nodes": [...], "store_skips": bool, "observer": "none"|"raising-global"|"raising-typed"}"""
    from insights.core import dr
    from insights.core.exceptions import SkipComponent
    from harness import graphs as G
    nodes = case["nodes"]
    desc = {"nodes": nodes, "store_skips": case["store_skips"]}
    g = G.Graph(desc)
    vio = []

    def V(clause, exp, obs, **feat):
        # every violation of a case in which an unhashable exception instance was raised carries
        # that fact, so the known finding about Broker.tracebacks can be matched narrowly
        feat["unhashable_exception_raised"] = any(k == "uneq" for (_, _, k) in g.raised)
        vio.append((clause, exp, obs, feat))
    try:
        n = len(nodes)
        names = [c.__name__ for c in g.nodes]
        extra = None
        if case.get("host"):
            # collection on a host: datasources run under a HostContext in the main thread and arm a SIGALRM timeout
            from insights.core.context import HostContext
            extra = {HostContext: HostContext()}
        broker = g.make_broker(extra=extra)
        obs_calls = []
        if case["observer"] != "none":
            def bad_observer(comp, b):
                obs_calls.append(comp)
                raise RuntimeError("observer failure")
            if case["observer"] == "raising-global":
                broker.add_observer(bad_observer)
            elif case["observer"] == "raising-partial":
                import functools
                broker.add_observer(functools.partial(bad_observer))      # a callable without __name__
            elif case["observer"] == "raising-callable-object":
                class _Obs(object):
                    def __call__(self, comp, b):
                        return bad_observer(comp, b)
                broker.add_observer(_Obs())                               # another callable without __name__
            else:
                from insights.core import plugins
                for T in (plugins.datasource, plugins.parser, plugins.rule, G.needs):
                    broker.add_observer(bad_observer, T)
        graph = g.explicit_graph()
        # (1) nothing escapes
        import signal
        try:
            dr.run(graph, broker)
        except BaseException as ex:
            signal.alarm(0)
            V("escape:exception-escapes-run", "dr.run returns", "%s: %s" % (type(ex).__name__, ex),
              escaping=type(ex).__name__)
            return vio
        # a timeout alarm that is still pending when the evaluation has returned will fire in whatever runs then - an
        # unrelated component of a later evaluation, or the caller: the failure of one component would reach far
        # beyond its dependents (read and disarmed here through the OS interface, so the harness is never hit)
        pending = signal.alarm(0)
        if pending:
            V("escape:timeout-alarm-left-armed", {"pending_alarm_s": 0}, {"pending_alarm_s": pending})
        turns = [ev[1] for ev in g.log if ev[0] == "turn"]
        for i in range(n):
            if turns.count(i) != 1:
                V("escape:every-component-gets-its-turn", {"node": i, "turns": 1}, {"node": i, "turns": turns.count(i)})
        # (2) isolation
        R = G.ref_eval(desc, names)
        for i, nd in enumerate(nodes):
            r = R[i]
            c = g.nodes[i]
            if r.present and r.status in ("fired",):
                if c not in broker:
                    V("isolation:unaffected-component-lost", {"node": i, "value": G.canon_ref_value(_l(r.value))}, {"node": i, "absent": True})
                elif nd["t"] != "rule" and G.canon_value(broker[c]) != G.canon_ref_value(_l(r.value)):
                    V("isolation:value-differs", {"node": i, "value": G.canon_ref_value(_l(r.value))}, {"node": i, "value": G.canon_value(broker[c])})
                elif nd["t"] == "rule" and G.canon_value(broker[c])[:2] != list(r.value[:2]):
                    V("isolation:value-differs", {"node": i, "value": list(r.value)}, {"node": i, "value": G.canon_value(broker[c])})
            elif r.status == "failed":
                if c in broker:
                    V("isolation:failed-component-has-value", {"node": i, "absent": True}, {"node": i, "value": G.canon_value(broker[c])})
            elif r.status == "missing":
                if nd["t"] == "rule":
                    v = broker.get(c)
                    if v is None or v.get("type") != "skip":
                        V("isolation:dependent-reports-missing", {"node": i, "skip_response": True}, {"node": i, "value": G.canon_value(v)})
                else:
                    if c in broker:
                        V("isolation:dependent-has-value", {"node": i, "absent": True}, {"node": i, "value": G.canon_value(broker[c])})
                    mr = broker.missing_requirements.get(c)
                    exp = ([g.nodes[j] for j in r.missing[0]], [[g.nodes[j] for j in grp] for grp in r.missing[1]])
                    if mr is None or (list(mr[0]), [list(x) for x in mr[1]]) != exp:
                        V("isolation:dependent-reports-missing", {"node": i, "missing": [r.missing[0], r.missing[1]]},
                          {"node": i, "missing": None if mr is None else [[x.idx for x in mr[0]], [[y.idx for y in x] for x in mr[1]]]})
            # expected invocation counts (a failed sibling must not stop or repeat anything)
            n_inv = sum(1 for ev in g.log if ev[0] == "invoke" and ev[1] == i)
            if nd["t"] != "rp" and n_inv != r.invocations:
                V("isolation:invocation-count", {"node": i, "invocations": r.invocations}, {"node": i, "invocations": n_inv})
        # (3) accounting of every raised exception instance
        index = dict((c, i) for i, c in enumerate(g.nodes))
        recorded = []      # (key, exception)
        for key, lst in broker.exceptions.items():
            for ex in lst:
                recorded.append((key, ex))
        for (i, ex, kind) in g.raised:
            keys = [k for (k, e) in recorded if e is ex]
            ok_keys = allowed_keys(nodes, i)
            t = nodes[i]["t"]
            elem = nodes[i].get("elems") is not None
            feat = {"kind": kind, "type": t, "element_of_multi_output": elem,
                    "implements_spec": len(ok_keys) > 1 if t == "datasource" else None}
            if kind == "skip":
                if case["store_skips"]:
                    if not any(index.get(k) == i for k in keys):
                        V("accounting:skip-recorded-against-skipper", {"node": i, "keys": [i]},
                          {"node": i, "keys": [_kname(k, index) for k in keys]}, **feat)
                else:
                    if keys:
                        V("accounting:skip-recorded-although-off", {"node": i, "keys": []},
                          {"node": i, "keys": [_kname(k, index) for k in keys]}, **feat)
                for k in keys:
                    if index.get(k) != i:
                        V("accounting:recorded-under-foreign-key", {"node": i, "allowed": [i]},
                          {"node": i, "key": _kname(k, index)}, **feat)
                continue
            must = True
            if kind == "content":
                # weaker reading: a content error must be recorded only where the component type documents a place
                must = (t in ("component", "parser", "combiner", "rule", "condition")) or (t == "datasource" and len(ok_keys) > 1)
            good = [k for k in keys if index.get(k) in ok_keys]
            if must and not good:
                V("accounting:exception-not-recorded", {"node": i, "kind": kind, "allowed_keys": sorted(ok_keys)},
                  {"node": i, "keys": [_kname(k, index) for k in keys]}, **feat)
            for k in keys:
                if index.get(k) not in ok_keys:
                    V("accounting:recorded-under-foreign-key", {"node": i, "allowed": sorted(ok_keys)},
                      {"node": i, "key": _kname(k, index)}, **feat)
            if good:
                try:
                    tb = broker.tracebacks.get(ex)
                except TypeError:
                    tb = None
                if not (isinstance(tb, str) and tb.strip() and type(ex).__name__ in tb):
                    V("accounting:traceback-missing", {"node": i, "traceback": "non-empty text naming %s" % type(ex).__name__},
                      {"node": i, "traceback": (tb or "")[-120:]}, **feat)
        # (4) nothing else is recorded
        raised_ids = set(id(ex) for (_, ex, _) in g.raised)
        for key, ex in recorded:
            if id(ex) in raised_ids:
                continue
            ki = index.get(key)
            if ki is None:
                V("accounting:recorded-under-foreign-key", "keys inside the graph", {"key": _kname(key, index), "exception": repr(ex)},
                  kind="framework-skip" if type(ex) is SkipComponent else type(ex).__name__)
            elif not (type(ex) is SkipComponent and case["store_skips"]):
                V("accounting:unjustified-record", "only raised exceptions (and framework skips when skip recording is on)",
                  {"key": ki, "exception": repr(ex)}, kind=type(ex).__name__)
        for key in broker.missing_requirements:
            if index.get(key) is None:
                V("accounting:recorded-under-foreign-key", "keys inside the graph", {"missing_key": _kname(key, index)})
        # (5) two-step history in ONE process: the same component objects, the faults healed, a fresh broker - a
        # failure must not outlive the evaluation it happened in (no component stays disabled / ignored / remembered)
        if case.get("heal") and case["shape"] in SHAPES():
            first = (sum(1 for c in g.nodes if c in broker), len(recorded), len(broker.missing_requirements), len(g.raised))
            desc["nodes"] = SHAPES()[case["shape"]]
            del g.log[:]
            del g.raised[:]
            b2 = g.make_broker()
            try:
                dr.run(g.explicit_graph(), b2)
            except BaseException as ex:
                V("history:healed-evaluation", "dr.run returns", "%s: %s" % (type(ex).__name__, ex))
            else:
                R2 = G.ref_eval(desc, names)
                for i in range(n):
                    if R2[i].present and R2[i].status == "fired" and g.nodes[i] not in b2:
                        V("history:healed-evaluation", {"node": i, "present": True}, {"node": i, "absent": True})
                    n_inv = sum(1 for ev in g.log if ev[0] == "invoke" and ev[1] == i)
                    if nodes[i]["t"] != "rp" and n_inv != R2[i].invocations:
                        V("history:healed-evaluation", {"node": i, "invocations": R2[i].invocations}, {"node": i, "invocations": n_inv})
                if b2.exceptions or b2.missing_requirements:
                    V("history:healed-evaluation", "nothing recorded", {"exceptions": len(b2.exceptions), "missing": len(b2.missing_requirements)})
            case["_outcome"] = "values=%d:recorded=%d:missing=%d:raised=%d:healed" % first
            return vio
        case["_outcome"] = "values=%d:recorded=%d:missing=%d:raised=%d" % (
            sum(1 for c in g.nodes if c in broker), len(recorded), len(broker.missing_requirements), len(g.raised))
        return vio
    finally:
        g.cleanup()
        from insights.core.blacklist import BLACKLISTED_SPECS
        del BLACKLISTED_SPECS[:]


def _kname(k, index):
    return index[k] if k in index else repr(k)


def _l(x):
    if isinstance(x, (tuple, list)):
        return [_l(y) for y in x]
    return x


def run_unit(unit, tier):
    res = Result()
    if unit.get("part") == "gen":
        for k, base in enumerate(gen_shapes(unit["n"])):
            if k % unit["of"] != unit["chunk"]:
                continue
            sites = fault_sites(base)
            placements = [[]] + [[((i, e), kind)] for (i, e) in sites for kind in GEN_KINDS]
            for placement in placements:
                nodes = apply_faults(base, placement)
                case = {"shape": "generated", "nodes": nodes, "store_skips": bool(k % 2), "observer": "none"}
                try:
                    vio = check_case(case)
                except Exception:
                    import traceback
                    vio = [("harness:raises", "no exception", traceback.format_exc()[-900:], {})]
                res.case(nontrivial=bool(placement), outcome="%s|%s" % (",".join(sorted(set(v[0] for v in vio))), case.pop("_outcome", "?")),
                         sample=case if (placement and res.evals % 5000 == 11) else None)
                for v in vio:
                    res.violation(v[0], case, v[1], v[2], v[3])
        res.maxi("generated_shape_nodes", unit["n"])
        return res
    base = SHAPES()[unit["shape"]]
    sites = fault_sites(base)
    maxf = BOUNDS[tier]["max_faults"]
    if unit["observer"] != "none" and tier == "quick":
        maxf = 1                 # quick: raising observers are combined with at most one component fault
    for k in range(0, maxf + 1):
        kinds_k = KINDS if k <= 1 else KINDS[:6]       # the two exotic kinds (badstr, blacklisted) as single faults
        for where in itertools.combinations(sites, k):
            for kinds in itertools.product(kinds_k, repeat=k):
                placement = list(zip(where, kinds))
                nodes = apply_faults(base, placement)
                case = {"shape": unit["shape"], "nodes": nodes, "store_skips": unit["store_skips"], "observer": unit["observer"]}
                if unit["observer"] == "none" and 1 <= k <= 2:
                    case["heal"] = True
                if unit["observer"] == "none" and k <= 1 and any(nd["t"] == "datasource" for nd in base):
                    hc = dict(case, host=True)
                    hc.pop("heal", None)
                    try:
                        hv = check_case(hc)
                    except Exception:
                        import traceback
                        hv = [("harness:raises", "no exception", traceback.format_exc()[-900:], {})]
                    res.case(nontrivial=k > 0, outcome="host|%s|%s" % (",".join(sorted(set(v[0] for v in hv))), hc.pop("_outcome", "?")))
                    for v in hv:
                        res.violation(v[0], hc, v[1], v[2], v[3])
                try:
                    vio = check_case(case)
                    fired = None
                except Exception:
                    import traceback
                    vio = [("harness:raises", "no exception", traceback.format_exc()[-900:], {})]
                res.case(nontrivial=k > 0, outcome="%s|%s" % (",".join(sorted(set(v[0] for v in vio))), case.pop("_outcome", "?")),
                         sample=case if (k == 2 and res.evals % 400 == 7) else None)
                res.maxi("max_faults_placed", k)
                for v in vio:
                    res.violation(v[0], case, v[1], v[2], v[3])
    return res


def replay(case):
    return [{"clause": v[0], "case": case, "expected": v[1], "observed": v[2], "features": v[3]} for v in check_case(case)]
