"""C10 - cleaning is a deterministic, order-preserving function of content and config.

Part A (model checking over schedules = iteration orders of the obfuscator table).  For every
case of a catalogue of contents in which two obfuscators compete for the same text, ALL n! iteration
orders of `set(cleaner.obfuscate.keys()) - set(no_obfuscate)` are forced (str-subclass keys with
chosen hashes) and executed in-process through the real Cleaner.clean_content; the order actually
taken is measured by logging every obfuscator application.  Oracle: exactly one distinct output per
case.  The same cases are then executed in child interpreters under real PYTHONHASHSEED values;
oracle: one distinct output per case over all seeds.  A violating case is reported once, with two
forced orders (an adjacent transposition, which names the competing pair) and/or two seeds that give
different outputs; the replay re-executes both.  A seed-dependent output that the forced exploration
does not reproduce for the same obfuscator order is a different family (`clause_family` feature) and
is never covered by the hash-order finding.

Part B (exhaustive exploration of contents).  All contents of <= L lines over {ordinary, sensitive,
excluded-by-pattern, not-on-the-allow-list, "", " "} x configurations, through clean_content,
clean_file and TextFileProvider/DatasourceProvider.write + Hydration.dehydrate under a HostContext.
Oracle: output tokens (the unique tag of a non-blank line, B for "", W for whitespace-only) form a
subsequence of the input tokens (order kept, one input line per output line, nothing invented); a
result without a non-blank line is [] / raises ContentException and leaves no data file and no
results entry / the cleaned file is removed.

Part D (histories of fresh cleaners in one process).  Every ordered pair over an alphabet of steps (cleaner configuration x
content, two contents per obfuscator kind that number the same tokens in different order) and every triple over a reduced
alphabet (thorough: the whole one): each step on a FRESH Cleaner, all in one fork of a pristine child interpreter.  Oracle:
every step's output equals the output of that step when its cleaner is the first one of a pristine interpreter.

Part E (long contents).  Contents of 2**k - 1, 2**k, 2**k + 1 numbered lines up to 2**15 + 1 (thorough 2**16 + 1, 100001)
through clean_content (3 configurations), clean_file and provider.write: the order / derivation / emptiness oracle of part B.

"blank" is what the code calls blank: the empty string.  A whitespace-only line (" ", or "\\n" as
read by clean_file) is non-blank for the code and is treated so here (weaker reading).
"""
import itertools
import json
import os
import re
import shutil

from mc.result import Result
from mc import enumx
from harness import c10_lib as lib
from harness.tmp import mkscratch

ID = "C10"
LEVEL = "model_checking"
RULE = ("part A: every case of a fixed catalogue of competing-obfuscator contents x every one of the n! iteration orders "
        "of the applied obfuscator names (forced hashes, order taken is measured) + the same cases under real "
        "PYTHONHASHSEED=k in child interpreters (full output text compared) + every iteration order of every set built "
        "through the name `set` inside the obfuscator modules (schedule-driven stand-in, stateless DFS over the choice "
        "points); an execution is non-trivial when >= 2 obfuscators changed the same line. "
        "part B: every content of <= L lines over 6 line kinds x every listed configuration x 3 entry points; "
        "a case is non-trivial when cleaning dropped or rewrote at least one line. "
        "part D: every ordered pair of steps (cleaner configuration x content x call) and every triple over the reduced step "
        "alphabet, each step on a fresh Cleaner, the whole history in one fork of a pristine child interpreter; non-trivial "
        "when the last step and an earlier step both rewrote their content. "
        "part E: every listed line count (2**k - 1, 2**k, 2**k + 1) x configuration x entry point, numbered lines")
ASSUMPTIONS = ["CPython iterates a small set by slot index, so n keys with forced hashes 0..n-1 iterate in hash order; "
               "checked per execution against set(keys) itself and against the logged call order",
               "set order inside an obfuscator is owned only for sets built by calling the name `set` in insights.cleaner."
               "{hostname,ip,keyword,mac,password,pattern,filters,utilities} with <= 5 elements; equal contents iterate equally "
               "within one execution; set displays / comprehensions, other hash containers and other modules are reached by "
               "the bounded real-seed sweep only",
               "family classification only (not the verdict): a real-seed output equal to the forced-order output for the "
               "order that seed produced is attributed to the obfuscator order, anything else to other seed dependence",
               "part A contents are a hand-made catalogue (one or more per pair of obfuscators) plus, in the thorough "
               "tier, every length-3 substring of each sensitive token as keyword; not all contents",
               "blank means the empty string, as in the code; whitespace-only lines count as non-blank",
               "part D: a child interpreter that has imported insights.cleaner and built no Cleaner is the pristine process; "
               "fork() gives every history its own copy of it; the histories are sequences of clean_content calls on fresh "
               "Cleaner objects (other entry points share the obfuscator objects)",
               "part E: long contents are one fixed periodic mix of line kinds (and one all-dropped shape) per line count, not "
               "all contents of that length",
               "bounded: no counterexample within the stated bounds, nothing more"]
BOUNDS = {"quick": {"orders_per_case": "all n! (n <= 6); generated adjacent pairs: all orders of the <= 4 obfuscators involved", "hash_seeds": 16, "generated_cases": "substrings + 9x9 kinds x 4 glues + same-text + substitutes",
                    "inside_set_orders": "all n! per set built via set() in the obfuscator modules (n <= 5)", "max_lines": 4, "line_kinds": 6, "clean_content_configs": 60, "clean_file_configs": 5,
                    "provider_configs": 3, "spec_declarations": "2 no_redact x 3 no_obfuscate x 7 spec kinds, contents <= 2 lines",
                    "fresh_cleaner_histories": "all ordered pairs over 36 steps (16 contents = 2 per obfuscator kind / redaction / mixed on one cleaner configuration, the "
                                               "8 configuration-sensitive ones on 2 more configurations, 4 call variants) "
                                               "+ all triples over 6 steps, one process per history",
                    "long_contents": "line counts 1023..32769 (2**k - 1, 2**k, 2**k + 1 for k = 10, 12, 14; 2**15, 2**15 + 1) x 3 "
                                     "clean_content configurations; all-dropped shape, clean_file, datasource and file provider "
                                     "write at 16385 and 32769"},
          "thorough": {"orders_per_case": "all n! (n <= 6)", "hash_seeds": 64, "generated_cases": "substrings + 9x9 kinds x 7 glues + same-text + substitutes",
                       "inside_set_orders": "all n! per set built via set() in the obfuscator modules (n <= 5)", "max_lines": 5, "line_kinds": 6, "clean_content_configs": 60, "clean_file_configs": 5,
                       "provider_configs": 4, "spec_declarations": "2 no_redact x 3 no_obfuscate x 7 spec kinds, contents <= 3 lines",
                       "fresh_cleaner_histories": "all ordered pairs and all triples over 36 steps, one process per history",
                       "long_contents": "line counts 1023..65537 (2**k - 1, 2**k, 2**k + 1 for k = 10, 12..16) and 100001 x 3 "
                                        "clean_content configurations; other shapes / entry points at 16385, 32769, 65537"}}
CAP_S = {"quick": 300, "thorough": 2400}

CLAUSE_DET = "determinism:one-output-over-iteration-orders"
WHERE = "insights/cleaner/__init__.py:143"

# ================================================================================================
# Part A
# ================================================================================================

FQ = "web01.corp.test"
NEUTRAL = "ZZKW"          # a configured keyword that occurs nowhere: keeps all six obfuscators applied


def _c(label, lines, keywords=None, fqdn=FQ, **kw):
    d = {"label": label, "keywords": [NEUTRAL] if keywords is None else list(keywords), "fqdn": fqdn, "lines": list(lines)}
    d.update(kw)
    return d


def catalogue():
    """Label = the structural overlap built into the case (goes to the `competing` feature)."""
    return [
        # keyword against every other obfuscator
        _c("keyword-in-hostname", ["host web01.corp.test up"], ["web"]),
        _c("keyword-in-hostname", ["host web01.corp.test up", "nothing here", "again web01 and web01.corp.test"], ["web"]),
        _c("keyword-in-hostname", ["host web01.corp.test up"], ["web"], no_obfuscate=["mac"]),
        _c("keyword-in-hostname", ["host web01.corp.test up"], ["web"], off=["ipv6", "mac"]),
        _c("keyword-in-short-hostname", ["host web01 up"], ["eb0"]),
        _c("keyword-in-domain", ["host db.corp.test up"], ["corp"]),
        _c("keyword-in-hostname-substitute", ["host web01.corp.test up"], ["example"]),
        _c("hostname-in-keyword", ["x web01x y"], ["web01x"]),
        _c("keyword-is-ip-prefix", ["addr 10.1.2.3"], ["10.1"]),
        _c("keyword-in-ip-substitute", ["addr 10.1.2.3"], ["230"]),
        _c("keyword-in-ip-substitute", ["tcp  0  0 10.1.2.3:22   192.168.100.200:5000  ESTABLISHED"], ["230"], width=True),
        _c("keyword-in-mac", ["ether aa:bb:cc:dd:ee:ff"], ["bb:cc"]),
        _c("keyword-in-ipv6", ["inet6 fe80::1 scope"], ["fe80"]),
        _c("keyword-is-password-word", ["password=abc123"], ["password"]),
        _c("keyword-is-password-word", ["password=abc123"], ["password"], off=["all"]),
        _c("keyword-in-password-value", ["password=abc123"], ["abc"]),
        # password against the rest
        _c("password-value-is-ip", ["password=10.1.1.1"]),
        _c("password-value-is-short-hostname", ["password=web01"]),
        _c("password-value-is-fqdn", ["password=web01.corp.test"]),
        _c("password-value-is-mac", ["password=aa:bb:cc:dd:ee:ff"]),
        _c("password-value-is-dashed-mac", ["password=aa-bb-cc-dd-ee-ff"]),
        _c("password-value-is-ipv6", ["password=fe80::1"]),
        _c("password-value-is-ipv6", ["password=2001:db8:1:2:3:4:5:6"]),
        # host name against addresses
        _c("ip-label-in-other-hostname", ["host h.10.1.1.1.corp.test up"]),
        _c("system-hostname-starts-with-ip", ["host 10.1.1.1.corp.test up"], fqdn="10.1.1.1.corp.test"),
        _c("system-hostname-is-dashed-mac", ["host aa-bb-cc-dd-ee-ff.corp.test up"], fqdn="aa-bb-cc-dd-ee-ff.corp.test"),
        _c("dashed-mac-label-in-other-hostname", ["host aa-bb-cc-dd-ee-ff.corp.test up"]),
        _c("system-hostname-is-ipv6-hextet", ["a fe80::1 b"], fqdn="fe80.corp.test"),
        # addresses against each other
        _c("ipv4-embedded-in-ipv6", ["b fe80::10.1.1.1"]),
        _c("ipv4-mapped-ipv6", ["inet6 ::ffff:10.1.1.1 x", "a 1::10.1.1.1"]),
        _c("ip-tail-is-dashed-mac-head", ["x 10.1.1.11-22-33-44-55-66 y"]),
        _c("mac-glued-to-ipv6", ["x aa:bb:cc:dd:ee:ffX::1 y"]),
        _c("mac-next-to-ipv6", ["x aa-bb-cc-dd-ee-ff::1 y", "x 1::aa-bb-cc-dd-ee-ff"]),
        # exemptions remove the competition
        _c("exempt:keyword-in-hostname-keyword-exempt", ["host web01.corp.test up"], ["web"], no_obfuscate=["keyword"]),
        _c("exempt:keyword-in-hostname-hostname-exempt", ["host web01.corp.test up"], ["web"], no_obfuscate=["hostname"]),
        _c("exempt:password-value-is-ip-ip-exempt", ["password=10.1.1.1"], no_obfuscate=["ip", "ipv6", "mac"]),
        # controls: nothing overlaps, one obfuscator at work (any seed dependence here is not about order)
        _c("control:separate-tokens", ["KW web01.corp.test 10.1.1.1 aa:bb:cc:dd:ee:ff fe80::1 password=abc"], ["KW"]),
        _c("control:hostname-alone", ["host web01.corp.test and db.corp.test and web01"]),
        _c("control:ip-alone", ["addr 10.1.1.1 10.1.1.10 192.168.0.254 127.0.0.1 10.1.1.1 10.1.1.2 10.1.1.3 10.1.1.4"]),
        _c("control:ipv6-alone", ["inet6 fe80::1 2001:db8:1:2:3:4:5:6 fe80::1"]),
        _c("control:mac-alone", ["ether aa:bb:cc:dd:ee:ff AA:BB:CC:DD:EE:FF 00-11-22-33-44-55"]),
        _c("control:password-alone", ["password=abc123 password: xyz", "password ***** rest of line"]),
        _c("control:keyword-alone", ["x KWA y KWB z KWA"], ["KWA", "KWB"]),
        _c("control:keyword-in-keyword", ["x alphabet y alpha z"], ["alpha", "alphabet"]),
        _c("control:keyword-in-keyword", ["x alphabet y alpha z"], ["alphabet", "alpha"]),
        _c("control:no-keyword-configured", ["host web01.corp.test 10.1.1.1 password=abc"], []),
        # several tokens of ONE kind on one line: any seed dependence would sit inside that obfuscator (numbering /
        # replacement order of equal-length names and addresses); decided by the in-process set schedules and the seeds
        _c("inside:two-new-hostnames-equal-length", ["route via gw-a.corp.test gw-b.corp.test"]),
        _c("inside:three-new-hostnames-equal-length", ["route via gw-a.corp.test gw-b.corp.test gw-c.corp.test"]),
        _c("inside:five-new-hostnames-equal-length",
           ["# peers of web01.corp.test", "route via gw-a.corp.test gw-b.corp.test gw-c.corp.test gw-d.corp.test gw-e.corp.test",
            "then gw-c.corp.test again"]),
        _c("inside:new-hostnames-mixed-length", ["via gw-a.corp.test gw-b.corp.test a.gw-a.corp.test db.corp.test gw-a.corp.test"]),
        _c("inside:two-ipv4-equal-length", ["peers 10.1.1.1 10.1.1.2"]),
        _c("inside:three-ipv4-equal-length", ["peers 10.1.1.3 10.1.1.1 10.1.1.2 and 10.1.1.3", "later 10.1.1.2"]),
        _c("inside:two-ipv4-equal-length", ["tcp        0      0 10.1.2.3:22            10.1.2.4:5000           ESTABLISHED"], width=True),
        _c("inside:two-ipv6", ["inet6 fe80::1 fe80::2 2001:db8::1 2001:db8::2"]),
        _c("inside:two-macs", ["ether aa:bb:cc:dd:ee:ff 11:22:33:44:55:66 aa-bb-cc-dd-ee-ff"]),
        _c("inside:two-keywords", ["x KWA KWB y KWB KWA"], ["KWA", "KWB"]),
        _c("inside:three-keywords", ["x KWC KWA KWB y"], ["KWB", "KWC", "KWA"]),
        _c("inside:two-passwords", ["password=abc123 password2=xyz789"]),
        # more than N of a thing: the host<N> / address counters cross 9 -> 10 within one line and over lines
        _c("inside:twelve-new-hostnames", ["via " + " ".join("gw-%s.corp.test" % ch for ch in "abcdefghijkl"),
                                           "then gw-k.corp.test gw-b.corp.test n1.corp.test"]),
        _c("inside:eleven-ipv4", ["peers " + " ".join("10.1.1.%d" % i for i in range(1, 12)), "then 10.1.1.10 10.1.1.2 10.9.9.9"]),
        # boundary configurations
        _c("boundary:bare-system-hostname", ["host web01 and web01.corp.test and web010"], fqdn="web01"),
        _c("boundary:keyword-with-regex-metacharacters", ["x a.b a+b (a) a?b y a-b"], ["a.b", "(a)", "a+b"]),
        _c("boundary:keyword-case-variants", ["x Web web WEB web01 y"], ["web", "Web"]),
        _c("boundary:blank-lines-between", ["host web01.corp.test", "", " ", "addr 10.1.2.3", ""], ["web"]),
        # more than one competing pair in play on one line / in one content
        _c("multi:keywords-in-every-kind",
           ["host web01.corp.test addr 10.1.2.3 ether aa:bb:cc:dd:ee:ff inet6 fe80::1 password=abc123"],
           ["web", "230", "bb:cc", "fe80", "password"]),
        _c("multi:password-values-of-every-kind",
           ["password=web01.corp.test password2=10.1.2.3 password3=aa:bb:cc:dd:ee:ff password4=fe80::1"], ["web"]),
        _c("multi:three-line-content",
           ["password=10.1.1.1 on web01", "ether aa:bb:cc:dd:ee:ff at 10.1.1.11-22-33-44-55-66", "web01x fe80::10.1.1.1"],
           ["web01x", "bb:cc"]),
        # two-step histories: ONE cleaner cleans an earlier spec first; the later output must be determined too
        _c("history:hostnames-numbered-by-earlier-spec", ["route via gw-a.corp.test gw-b.corp.test"],
           pre=[["peer gw-b.corp.test", "peer db.corp.test"]]),
        _c("history:ipv4-numbered-by-earlier-spec", ["peers 10.1.1.1 10.1.1.2 10.1.1.3"], pre=[["addr 10.1.1.2"], ["addr 10.9.9.9 10.1.1.3"]]),
        _c("history:keyword-in-hostname", ["host web01.corp.test up"], ["web"], pre=[["first web01 seen here", "and db.corp.test"]]),
        _c("history:password-value-is-ip", ["password=10.1.1.1"], pre=[["addr 10.1.1.1 10.1.1.2"]]),
        _c("history:same-spec-twice", ["host web01.corp.test 10.1.2.3 aa:bb:cc:dd:ee:ff fe80::1 password=abc KW"], ["KW"],
           pre=[["host web01.corp.test 10.1.2.3 aa:bb:cc:dd:ee:ff fe80::1 password=abc KW"]]),
        # the single-string entry point of clean_content
        _c("string:keyword-in-hostname", ["host web01.corp.test up"], ["web"], as_string=True),
        _c("string:keyword-is-password-word", ["password=abc123"], ["password"], as_string=True),
        _c("string:password-value-is-ip", ["password=10.1.1.1"], as_string=True),
        _c("string:two-new-hostnames-equal-length", ["route via gw-a.corp.test gw-b.corp.test"], as_string=True),
        _c("string:separate-tokens", ["KW web01.corp.test 10.1.1.1 aa:bb:cc:dd:ee:ff fe80::1 password=abc"], ["KW"], as_string=True),
        _c("string:empty", [""], as_string=True),
    ]


GEN_TOKENS = [("hostname", "web01.corp.test", "host %s up"),
              ("ip", "10.1.2.3", "addr %s/24"),
              ("mac", "aa:bb:cc:dd:ee:ff", "ether %s txq"),
              ("ipv6", "fe80::a1:b2", "inet6 %s scope"),
              ("password-assignment", "password=abc123", "opt %s end")]

# one token per sensitive kind; "kw" is the configured keyword itself
KIND_TOKENS = [("fqdn", "web01.corp.test"), ("short", "web01"), ("otherhost", "db.corp.test"), ("ip", "10.1.2.3"),
               ("mac", "aa:bb:cc:dd:ee:ff", ), ("dmac", "aa-bb-cc-dd-ee-ff"), ("ipv6", "fe80::a1:b2"),
               ("pw", "password=abc123"), ("kw", "KWX")]
GLUES = {"quick": ["", ".", ":", "-"], "thorough": ["", ".", ":", "-", "=", "/", " "]}
SUBSTITUTE_WORDS = ["230", "10.230", "example", "example.com", "host", "keyword", "keyword0", "****", "c07c"]


def generated(tier):
    """Generated competing contents (instead of a hand-picked list):
    inside    every distinct length-3 substring of each sensitive token as the keyword;
    adjacent  every ORDERED pair of token kinds (9 x 9, a kind with itself included) glued by each glue string;
    same      the keyword / the password value equal to the token of each kind; the token inside a longer keyword;
    subst     words that occur in the substitutes as keywords."""
    out = []
    for kind, tok, tmpl in GEN_TOKENS:
        seen = []
        for i in range(len(tok) - 2):
            w = tok[i:i + 3]
            if w not in seen:
                seen.append(w)
                out.append(_c("keyword-in-%s" % kind, [tmpl % tok], [w], gen=True))
    for k1, t1 in KIND_TOKENS:
        for k2, t2 in KIND_TOKENS:
            for g in GLUES[tier]:
                c = _c("gen:adjacent:%s+%s" % (k1, k2), ["x %s%s%s y" % (t1, g, t2)], ["KWX"], gen=True)
                if tier == "quick":      # quick bound: permute the obfuscators of the two kinds + keyword + password (<= 4!)
                    c["permute"] = sorted(set([OBF_OF_KIND[k1], OBF_OF_KIND[k2], "keyword", "password"]))
                out.append(c)
    for k, t in KIND_TOKENS:
        if k in ("kw", "pw"):
            continue
        out.append(_c("gen:keyword-equals:%s" % k, ["x %s y" % t], [t], gen=True))
        out.append(_c("gen:token-inside-keyword:%s" % k, ["x %sx y x%s z" % (t, t)], [t + "x", "x" + t], gen=True))
        for form in ("password=%s", "password: %s", "password %s", "password=\"%s"):
            out.append(_c("gen:password-value-equals:%s" % k, [form % t], gen=True))
    for w in SUBSTITUTE_WORDS:
        out.append(_c("gen:keyword-in-substitute", ["host web01.corp.test db.corp.test addr 10.1.2.3 KWX password=abc123"],
                      [w, "KWX"], gen=True))
    return out


def cases_a(tier):
    cs = catalogue() + generated(tier)
    for i, c in enumerate(cs):
        c["n"] = i
    return cs


def seeds_for(tier):
    return list(range(BOUNDS[tier]["hash_seeds"]))


def _fp(out):
    return json.dumps(out, sort_keys=True)


OBF_OF_KIND = {"fqdn": "hostname", "short": "hostname", "otherhost": "hostname", "ip": "ip", "mac": "mac", "dmac": "mac",
               "ipv6": "ipv6", "pw": "password", "kw": "keyword"}


def forced_orders(case):
    """All n! orders of the applied obfuscator names - or, for a case that carries "permute" (quick tier,
    generated adjacent pairs), all orders of those names followed by the others in sorted position."""
    names = lib.enabled_names(case)
    sub = [n for n in names if n in case["permute"]] if case.get("permute") else names
    rest = [n for n in names if n not in sub]
    return names, [list(p) + rest for p in itertools.permutations(sub)]


def forced_table(case):
    """Every forced order of one case -> list of run_forced results, in lexicographic order of the forced order."""
    names, orders = forced_orders(case)
    return names, [lib.run_forced(case, o) for o in orders]


def measured_pairs(runs):
    """Pairs {a,b} such that two forced orders differing only by the adjacent transposition of a and b
    give different outputs, plus one witness (two such orders).  Empty when the output is unique."""
    table = dict((tuple(r["forced"]), _fp(r["out"])) for r in runs)
    pairs = set()
    witness = None
    for r in runs:
        o = tuple(r["forced"])
        for i in range(len(o) - 1):
            o2 = list(o)
            o2[i], o2[i + 1] = o2[i + 1], o2[i]
            o2 = tuple(o2)
            if o2 in table and table[o2] != table[o]:
                pairs.add("+".join(sorted((o[i], o[i + 1]))))
                if witness is None:
                    witness = [list(o), list(o2)]
    return sorted(pairs), witness


def case_core(case):
    return dict((k, v) for k, v in case.items() if k not in ("n", "gen"))


def explained_by_order(runs, a, b):
    """a, b: run_plain results under two seeds with different outputs.  The pair belongs to the
    hash-order family iff both outputs are exactly what the forced exploration produced for the
    order that seed took; anything else is seed dependence that the obfuscator order does not explain."""
    by_obs = {}
    for r in runs:
        by_obs.setdefault(tuple(r["observed"]), set()).add(_fp(r["out"]))
    ok = all(by_obs.get(tuple(x["observed"])) == set([_fp(x["out"])]) for x in (a, b))
    return ok and a["observed"] != b["observed"]


def check_a(desc, runs=None, seed_runs=None):
    """One part-A case with two forced orders and/or two set schedules inside the obfuscators and/or two hash
    seeds that must give the same output.
    desc = {"part": "A", "case": {...}, "orders": [o1, o2]?, "inside": [choices1, choices2]?, "seeds": [k1, k2]?}.
    `runs` (the full forced table) and `seed_runs` ({seed: run_plain result}) are passed by the
    exploration to avoid re-executing; a replay recomputes them.  Returns [] or one violation."""
    case = desc["case"]
    obs = {"where": WHERE}
    via = []
    if desc.get("orders"):
        r1 = lib.run_forced(case, desc["orders"][0])
        r2 = lib.run_forced(case, desc["orders"][1])
        if _fp(r1["out"]) != _fp(r2["out"]):
            via.append("forced-order")
            obs["forced"] = {"order_1": r1["observed"], "output_1": r1["out"], "order_2": r2["observed"], "output_2": r2["out"]}
    family = "hash-order"
    if desc.get("inside"):
        i1 = lib.run_inside(case, desc["inside"][0])
        i2 = lib.run_inside(case, desc["inside"][1])
        if _fp(i1["out"]) != _fp(i2["out"]):
            via.append("inside-set-order")
            obs["inside"] = {"set_schedule_1": desc["inside"][0], "output_1": i1["out"],
                             "set_schedule_2": desc["inside"][1], "output_2": i2["out"],
                             "where": "a set iterated inside insights/cleaner/{%s}.py" % ",".join(lib.INSIDE_MODULES[:4])}
    if desc.get("seeds"):
        k1, k2 = desc["seeds"]
        if seed_runs is None:
            got = lib.run_children([case], [k1, k2], parallel=2)
            seed_runs = {k1: got[k1][0], k2: got[k2][0]}
        a, b = seed_runs[k1], seed_runs[k2]
        if _fp(a["out"]) != _fp(b["out"]):
            via.append("hash-seed")
            obs["seeds"] = {"seed_1": k1, "order_1": a["observed"], "output_1": a["out"],
                            "seed_2": k2, "order_2": b["observed"], "output_2": b["out"]}
            if runs is None:
                _, runs = forced_table(case)
            if not explained_by_order(runs, a, b):
                family = "seed-dependent-beyond-obfuscator-order"
    if "inside-set-order" in via and family != "hash-order" or via == ["inside-set-order"]:
        family = "set-order-inside-obfuscator"
    if not via:
        return []
    if runs is None:
        _, runs = forced_table(case)
    pairs, _ = measured_pairs(runs)
    obs["distinct_outputs_over_all_forced_orders"] = len(set(_fp(r["out"]) for r in runs))
    feats = {"clause_family": family, "competing": case["label"], "via": "+".join(via), "pairs": ",".join(pairs)}
    return [(CLAUSE_DET, "one output for every iteration order of the obfuscator table, every set order inside an obfuscator and every "
             "PYTHONHASHSEED", obs, feats)]


def run_a(unit, tier, res):
    """Forced obfuscator orders and set schedules inside the obfuscators, in-process."""
    import math
    wanted = set(unit["cases"])
    cases = [c for c in cases_a(tier) if c["n"] in wanted]
    for case in cases:
        names, runs = forced_table(case)
        outs = set(_fp(r["out"]) for r in runs)
        obs_orders = set(tuple(r["observed"]) for r in runs)
        followed = sum(1 for r in runs if r["observed"] == r["forced"])
        res.states += len(obs_orders)          # distinct (case, order actually taken)
        res.traces += len(runs)
        if followed != len(runs):
            res.notes.append("the code imposes its own obfuscator order (forced set order not followed): the n! forced "
                             "schedules of a case collapse to the orders counted in A_distinct_orders_observed")
        res.transitions += sum(r["calls"] for r in runs)
        res.stat("A_cases")
        res.stat("A_forced_executions", len(runs))
        res.stat("A_cases_with_all_factorial_orders", 1 if len(runs) == math.factorial(len(names)) else 0)
        res.stat("A_distinct_orders_observed", len(obs_orders))
        res.stat("A_executions_where_code_followed_forced_order", followed)
        res.maxi("A_max_obfuscators_permuted", len(names))
        res.maxi("A_max_distinct_outputs_of_one_case", len(outs))
        for r in runs:
            res.case(nontrivial=r["max_changed_on_one_line"] >= 2,
                     outcome="A:%s:%d-changed" % (case["label"].split(":")[0][:24], r["max_changed_on_one_line"]))
        if len(res.samples) < 2:
            res.samples.append({"part": "A", "case": case_core(case), "orders": [runs[0]["forced"], runs[-1]["forced"]],
                                "seeds": [0, 1]})
        desc = {"part": "A", "case": case_core(case)}
        if len(outs) > 1:
            res.stat("A_cases_with_more_than_one_output_forced")
            _, witness = measured_pairs(runs)
            if witness is None:       # outputs differ although no adjacent swap explains it: take the first two
                first = runs[0]
                other = [r for r in runs if _fp(r["out"]) != _fp(first["out"])][0]
                witness = [first["forced"], other["forced"]]
            desc["orders"] = witness
        # ---- set iteration order inside the obfuscators, owned in-process -----------------------
        iruns, complete = lib.explore_inside(case)
        iouts = {}
        for r in iruns:
            iouts.setdefault(_fp(r["out"]), r["choices"])
        res.traces += len(iruns)
        res.evals += len(iruns)
        res.stat("A_inside_set_schedules_executed", len(iruns))
        res.stat("A_inside_cases_with_a_set_choice_point", 1 if len(iruns) > 1 else 0)
        res.maxi("A_inside_max_set_schedules_of_one_case", len(iruns))
        res.outcomes.add("A:inside:%d-schedules:%d-outputs" % (min(len(iruns), 2), len(iouts)))
        if not complete:
            res.exhaustive = False
            res.notes.append("set schedules inside the obfuscators were capped for a case (more than %d elements in one set "
                             "or more than 3000 schedules)" % lib.INSIDE_MAX_N)
        if len(iouts) > 1:
            res.stat("A_cases_with_more_than_one_output_inside")
            desc["inside"] = sorted(iouts.values(), key=lambda ch: (len(ch), ch))[:2]
        if "orders" in desc or "inside" in desc:
            for clause, exp, obs, feats in check_a(desc, runs):
                res.violation(clause, desc, exp, obs, feats)


def run_a_seeds(unit, tier, res):
    """The same cases under real hash seeds: one child interpreter per seed for the whole batch; the full output
    text of every case is compared over the seeds.  (The forced table of a case is recomputed only when its
    outputs differ, to tell order dependence from other seed dependence.)"""
    wanted = set(unit["cases"])
    cases = [c for c in cases_a(tier) if c["n"] in wanted]
    seeds = seeds_for(tier)
    got = lib.run_children([case_core(c) for c in cases], seeds, parallel=8 if tier == "quick" else 4)
    for ci, case in enumerate(cases):
        per_seed = [(k, got[k][ci]) for k in seeds]
        res.traces += len(per_seed)
        res.transitions += sum(r["calls"] for _, r in per_seed)
        res.stat("A_seed_executions", len(per_seed))
        res.stat("A_distinct_orders_observed_over_seeds", len(set(tuple(r["observed"]) for _, r in per_seed)))
        outs = {}
        for k, r in per_seed:
            outs.setdefault(_fp(r["out"]), k)
        res.evals += len(per_seed)
        res.outcomes.add("A:seeds:%d-outputs" % len(outs))
        res.maxi("A_max_distinct_outputs_of_one_case_over_seeds", len(outs))
        if len(outs) > 1:
            res.stat("A_cases_with_more_than_one_output_seeds")
            k1 = per_seed[0][0]
            k2 = [k for k, r in per_seed if _fp(r["out"]) != _fp(per_seed[0][1]["out"])][0]
            desc = {"part": "A", "case": case_core(case), "seeds": [k1, k2]}
            for clause, exp, obs, feats in check_a(desc, None, {k1: got[k1][ci], k2: got[k2][ci]}):
                res.violation(clause, desc, exp, obs, feats)


# ================================================================================================
# Part B
# ================================================================================================

BASE_KINDS = "OSXNBW"
EXTRA_KINDS = "DF"        # D: untagged line occurring several times; F: str.splitlines() separators inside one line
TAG = re.compile(r"#T(\d+)#")
KW = "SECRETKW"
DUP = "ALLOW DUPLICATE line without a tag"
SEPS = "\x0c\x1c\x1d\x1e\x85  \x0b"      # ordinary characters inside a line for everything but str.splitlines


def build_lines(syms):
    """Line i of kind k; every non-blank, non-whitespace line except D carries the unique tag #T<i>#."""
    out = []
    for i, k in enumerate(syms):
        if k == "O":
            out.append("#T%d# ALLOW plain text" % i)
        elif k == "S":
            out.append("#T%d# ALLOW host web01.corp.test addr 10.1.1.1 ether aa:bb:cc:dd:ee:ff password=abc123 %s" % (i, KW))
        elif k == "X":
            out.append("#T%d# ALLOW REDACTME here" % i)
        elif k == "N":
            out.append("#T%d# some other line" % i)
        elif k == "B":
            out.append("")
        elif k == "W":
            out.append(" ")
        elif k == "D":
            out.append(DUP)
        elif k == "F":
            out.append("#T%d# ALLOW " % i + "".join("p%d%s" % (j, ch) for j, ch in enumerate(SEPS)) + "end")
        else:
            raise ValueError(k)
    return out


def in_tokens(syms):
    return ["B" if k == "B" else "W" if k == "W" else "D" if k == "D" else "T%d" % i for i, k in enumerate(syms)]


def out_tokens(lines):
    """Token per output line, or None for a line that cannot be attributed to exactly one input line."""
    toks = []
    for l in lines:
        if not isinstance(l, str):
            toks.append(None)
            continue
        tags = TAG.findall(l)
        if l == "":
            toks.append("B")
        elif len(tags) == 1:
            toks.append("T%s" % tags[0])
        elif not tags and l == DUP:
            toks.append("D")
        elif not tags and l.strip() == "":
            toks.append("W")
        else:
            toks.append(None)
    return toks


def is_subsequence(small, big):
    it = iter(big)
    return all(any(x == y for y in it) for x in small)


def check_tokens(syms, out_lines):
    """Order and derivation oracle on one output (list of lines without line terminators): the output tokens
    embed into the input tokens as a subsequence - order kept, one input line per output line, never more
    lines than the input, nothing invented; untagged duplicates are compared through the embedding."""
    v = []
    itoks = in_tokens(syms)
    otoks = out_tokens(out_lines)
    tags = [int(t[1:]) for t in otoks if t and t[0] == "T"]
    if any(b <= a for a, b in zip(tags, tags[1:])):
        v.append(("order:tags-strictly-increasing", "tags of the output lines strictly increasing", {"output": out_lines}))
    elif None in otoks or not is_subsequence(otoks, itoks):
        v.append(("derivation:one-input-line-per-output-line",
                  "output tokens a subsequence of the input tokens %s" % (itoks,), {"output": out_lines, "tokens": otoks}))
    return v


def nonblank(lines):
    """blank = the empty string (the code's notion; whitespace-only lines count as non-blank: DESIGN C10, not-demanded)."""
    return any(l != "" for l in lines if isinstance(l, str))


CC_PATTERNS = {"plain": ["REDACTME"], "regex": {"regex": ["REDACT[A-Z]+"]}, "none": None, "empty-list": []}
CC_ALLOW = [None, {"ALLOW": 10000}, {"ALLOW": 1}, {"ALLOW": 2}, {"ALLOW": 1, "other": 1}]


def cc_configs():
    out = []
    for pk in ("plain", "regex", "none"):
        for al in CC_ALLOW:
            for no_redact in (False, True):
                for obf in (True, False):
                    out.append({"patterns": pk, "allow": al, "no_redact": no_redact, "obfuscate": obf})
    # configurations in which NOTHING applies to the spec (no pattern / redaction exempt, no allow-list, every
    # enabled obfuscator exempted): the emptiness clause must hold there too (added after a seeded change that
    # short-cuts "no parsers" showed the 60 configurations above always had at least one parser)
    ALL = ["hostname", "ip", "ipv6", "keyword", "mac", "password"]
    for pk, no_redact in (("none", False), ("plain", True), ("regex", True)):
        out.append({"patterns": pk, "allow": None, "no_redact": no_redact, "obfuscate": False, "keywords": False, "no_obf": ["password"]})
        out.append({"patterns": pk, "allow": None, "no_redact": no_redact, "obfuscate": True, "no_obf": ALL})
        out.append({"patterns": pk, "allow": None, "no_redact": no_redact, "obfuscate": True, "no_obf": ["password", "mac"]})
    # falsy-but-real configuration values: an EMPTY allow-list (nothing is allowed), an empty pattern list, an empty exemption list
    out.append({"patterns": "plain", "allow": {}, "no_redact": False, "obfuscate": True})
    out.append({"patterns": "none", "allow": {}, "no_redact": True, "obfuscate": False, "keywords": False})
    out.append({"patterns": "empty-list", "allow": None, "no_redact": False, "obfuscate": True, "no_obf": []})
    return out


CORE_CC = [{"patterns": "plain", "allow": al, "no_redact": False, "obfuscate": obf}
           for al in (None, {"ALLOW": 10000}, {"ALLOW": 1}, {"ALLOW": 2}) for obf in (True, False)]
CF_CONFIGS = [{"patterns": "plain", "allow": al, "no_redact": False, "obfuscate": True} for al in CC_ALLOW[:4]] + \
             [{"patterns": "none", "allow": None, "no_redact": False, "obfuscate": True}]
WR_CONFIGS = [{"spec": "plain", "allow": None}, {"spec": "ds", "allow": None},
              {"spec": "filt", "allow": {"ALLOW": 2}}, {"spec": "cmd", "allow": None},
              {"spec": "cmdfilt", "allow": {"ALLOW": 2}}, {"spec": "filt", "allow": {"ALLOW": 10000}}]
# spec DECLARATIONS (RegistryPoint(no_redact=..., no_obfuscate=...)): with filterable yes/no they produce every
# possible `cleans` list of ContentProvider._clean_content - [], [Redact], [Obfuscate], [Filter] and their combinations
NO_OBF = {"none": [], "some": ["hostname", "ip"], "all": list(lib.ALL_OBFUSCATIONS)}
DECLS = [{"no_redact": nr, "no_obf": no} for nr in (False, True) for no in ("none", "some", "all")]
DECL_SPECS = [("plain", None), ("ds", None), ("cmd", None), ("filt", {"ALLOW": 2}), ("cmdfilt", {"ALLOW": 2}),
              ("filt", None), ("cmdfilt", None)]          # the last two: filterable without any filter registered


def wr_decl_configs():
    """Every declaration but the default one (the default runs the full content space in WR_CONFIGS) x every spec kind,
    plus the default declaration on a filterable spec without filters."""
    out = []
    for d in DECLS:
        for spec, allow in DECL_SPECS:
            if d == DECLS[0] and allow is not None or d == DECLS[0] and spec in ("plain", "ds", "cmd"):
                continue
            out.append({"spec": spec, "allow": allow, "decl": d})
    return out


def cleans_of(cfg):
    d = cfg.get("decl") or DECLS[0]
    c = ([] if d["no_redact"] else ["Redact"]) + ([] if d["no_obf"] == "all" else ["Obfuscate"]) + \
        (["Filter"] if cfg["spec"] in ("filt", "cmdfilt") else [])
    return "+".join(c) or "none"


SUBPROCESS_SPECS = ("filt", "cmd", "cmdfilt")      # their loader is shell_out(...).splitlines(): kind F is not for them
B_CLEANER = {"patterns": "plain", "obfuscate": True}


def b_cleaner(cfg):
    return lib.build_cleaner({"keywords": [KW] if cfg.get("keywords", True) else [], "patterns": CC_PATTERNS[cfg.get("patterns", "plain")],
                              "fqdn": FQ, "off": [] if cfg.get("obfuscate", True) else ["all"]})


def check_cc(case):
    """clean_content on a list of lines; the same list / allow-list OBJECTS again with a second fresh cleaner
    (same input, same configuration -> same output: nothing may be mutated in place); the content again on the
    SAME cleaner (second spec of one collection); the single-string entry point for one-line contents."""
    cfg, syms = case["cfg"], case["syms"]
    lines = build_lines(syms)
    kw = dict(no_redact=cfg["no_redact"], no_obfuscate=cfg.get("no_obf"))
    shared_lines = list(lines)
    shared_allow = None if cfg["allow"] is None else dict(cfg["allow"])
    c = b_cleaner(cfg)
    out = c.clean_content(shared_lines, allowlist=shared_allow, **kw)
    v = []
    if not isinstance(out, list):
        return [("derivation:one-input-line-per-output-line", "a list of lines", {"output": repr(out)})], {"nt": True, "oc": "cc:notlist"}
    v += check_tokens(syms, out)
    if out and not nonblank(out):
        v.append(("emptiness:clean_content-returns-empty-list", [], {"output": out}))
    # -- same objects, second fresh cleaner ----------------------------------------------------------
    out2 = b_cleaner(cfg).clean_content(shared_lines, allowlist=shared_allow, **kw)
    if out2 != out:
        v.append(("determinism:same-input-twice", {"second_output": out}, {"second_output": out2, "input_list_now": shared_lines,
                                                                            "allowlist_now": shared_allow}))
    # -- same cleaner, the content once more (it is the cleaner of a whole collection) ----------------
    out3 = c.clean_content(list(lines), allowlist=None if cfg["allow"] is None else dict(cfg["allow"]), **kw)
    if isinstance(out3, list):
        v += [x for x in check_tokens(syms, out3) if x not in v]
        if out3 and not nonblank(out3) and not any(x[0].startswith("emptiness") for x in v):
            v.append(("emptiness:clean_content-returns-empty-list", [], {"output": out3, "call": "second on the same cleaner"}))
    # -- single string -------------------------------------------------------------------------------
    if len(lines) == 1:
        r = b_cleaner(cfg).clean_content(lines[0], allowlist=None if cfg["allow"] is None else dict(cfg["allow"]), **kw)
        if not (r is None or isinstance(r, str)):
            v.append(("derivation:string-path", "None or one string", {"output": repr(r)}))
        else:
            as_list = [] if r is None else [r]
            v += [x for x in check_tokens(syms, as_list) if x not in v]
            want = as_list if nonblank(as_list) else []
            if want != out:
                v.append(("derivation:string-path", {"clean_content([line])": out}, {"clean_content(line)": r}))
    return v, {"nt": out != lines, "oc": "cc:%dof%d" % (len(out), len(lines))}


def check_cf(case, root):
    """clean_file on a real file (every line ends with a line feed; the empty file is the content of no lines).
    Afterwards the file is gone, or it holds at least one non-empty line and embeds into the input."""
    cfg, syms = case["cfg"], case["syms"]
    lines = build_lines(syms)
    path = os.path.join(root, "cf.txt")
    raw_text = "".join(l + "\n" for l in lines)
    with open(path, "w", newline="") as fh:
        fh.write(raw_text)
    def allow():      # a private copy per call: a case must never see what an earlier call did to the mapping
        return None if cfg["allow"] is None else dict(cfg["allow"])
    b_cleaner(cfg).clean_file(path, no_redact=cfg["no_redact"], allowlist=allow())
    v = []
    feats = {}
    exists = os.path.exists(path)
    data = None
    if exists:
        with open(path, newline="") as fh:
            data = fh.read()
        os.remove(path)
        got = data.split("\n")
        if got and got[-1] == "":
            got.pop()
        if not nonblank(got) and syms == "":
            # an EMPTY INPUT file is outside the clause (coordinator's decision, weaker reading): the statement speaks of a
            # spec LEFT with no non-blank line by the cleaning; clean_file deliberately leaves a file it had nothing to do
            # with (`if raw_data:`) - counted, not judged
            feats["left"] = "empty-input-file-not-judged"
        elif not nonblank(got):
            # left: what the stored file consists of although no non-blank line is left
            feats["left"] = ("empty-input-file" if syms == "" else "zero-bytes" if data == "" else "only-empty-lines")
            v.append(("emptiness:clean_file-removes-file", "file removed: no non-blank line is left",
                      {"file": "exists", "content": data[:200], "input": raw_text[:200]}))
        else:
            v += check_tokens(syms, got)
            # a line that survives only when its terminator is counted as content is not a non-blank line;
            # a surviving tagged line proves the file is rightly kept.  Removal itself is decided by the reference below.
            ref = b_cleaner(cfg).clean_content([l + "\n" for l in lines], no_redact=cfg["no_redact"], allowlist=allow())
            if ref == []:
                feats["left"] = "should-be-removed"
                v.append(("emptiness:clean_file-removes-file", "file removed: clean_content of its lines is []",
                          {"file": "exists", "content": data[:200]}))
    return v, {"nt": (not exists) or data != raw_text, "oc": "cf:%s" % ("kept" if exists else "removed"), "features": feats}


def _judge_write(res, syms, what):
    """Oracle for one write attempt (lib.attempt_write result)."""
    status, exc, text = res
    v = []
    if status == "raised":
        if text is not None:
            v.append(("emptiness:write-raises-and-stores-nothing", "no file when the spec is dropped (%s)" % what,
                      {"raised": exc, "file": text[:200]}))
    elif status == "nothing":
        v.append(("emptiness:write-raises-and-stores-nothing", "a file, or the content error (%s)" % what, {"file": None, "raised": None}))
    else:
        got = text.split("\n")
        if not nonblank(got):
            v.append(("emptiness:write-raises-and-stores-nothing",
                      "ContentException and no file: no non-blank line is left (%s)" % what, {"raised": None, "file": text[:200]}))
        else:
            v += check_tokens(syms, got)
    return v


def check_wr(case, root):
    """A provider under a HostContext: write(); write() of the SAME provider once more (persisted twice);
    then a fresh provider whose .content is looked at before Hydration.dehydrate persists it."""
    from insights.core.exceptions import ContentException, CalledProcessError, NoFilterException
    from insights.core.serde import Hydration
    cfg, syms = case["cfg"], case["syms"]
    lines = build_lines(syms)
    d = cfg.get("decl")
    sp = lib.make_specs(cfg["allow"], one_call=True,
                        decl=None if d is None else {"no_redact": d["no_redact"], "no_obfuscate": NO_OBF[d["no_obf"]]})
    indir = os.path.join(root, "in")
    v = []

    def add(vs):
        for x in vs:
            if x not in v:
                v.append(x)

    # -- direct write, twice ---------------------------------------------------------------------------
    ddir = os.path.join(root, "direct")
    shutil.rmtree(ddir, ignore_errors=True)
    _, comp, p = lib.make_provider(sp, cfg["spec"], indir, lines, lib_cleaner_case())
    first = lib.attempt_write(p, os.path.join(ddir, "w1.txt"))
    add(_judge_write(first, syms, "first write"))
    second = lib.attempt_write(p, os.path.join(ddir, "w2.txt"))
    add(_judge_write(second, syms, "second write of the same provider"))
    shutil.rmtree(ddir, ignore_errors=True)
    # -- content looked at, then dehydrate ---------------------------------------------------------------
    out = os.path.join(root, "out")
    shutil.rmtree(out, ignore_errors=True)
    b, comp, p = lib.make_provider(sp, cfg["spec"], indir, lines, lib_cleaner_case())
    try:
        list(p.content)
    except (ContentException, CalledProcessError, NoFilterException):
        pass
    Hydration(root=out).dehydrate(comp, b)
    files = lib.list_files(out)
    data_files = [f for f in files if not f.startswith("meta_data" + os.sep)]
    meta = [f for f in files if f.startswith("meta_data" + os.sep)]
    results = None
    for m in meta:
        with open(os.path.join(out, m)) as fh:
            results = json.load(fh).get("results")
    contents = {}
    for f in data_files:
        with open(os.path.join(out, f), newline="") as fh:
            contents[f] = fh.read()
    first_kept = first[0] == "stored" and nonblank(first[2].split("\n"))
    if not first_kept:
        # nothing non-blank is left: no file, no results entry
        if data_files or results:
            add([("emptiness:dehydrate-no-file-no-results", {"data_files": [], "results": None},
                  {"data_files": contents, "results": results})])
    else:
        if len(data_files) != 1 or not results or not all(nonblank(t.split("\n")) for t in contents.values()):
            add([("emptiness:dehydrate-no-file-no-results",
                  "exactly one data file with a non-blank line and a results entry pointing to it",
                  {"data_files": contents, "results": results})])
        else:
            for f, t in contents.items():
                add(check_tokens(syms, t.split("\n")))
    shutil.rmtree(out, ignore_errors=True)
    kept = first[0] == "stored"
    return v, {"nt": (not kept) or first[2] != "\n".join(lines), "oc": "wr:%s:%s" % (cfg["spec"], "stored" if kept else "dropped:%s" % first[1])}


def lib_cleaner_case():
    return {"keywords": [KW], "patterns": CC_PATTERNS["plain"], "fqdn": FQ}


def _strings(kinds, max_len, min_len=0):
    return ["".join(t) for t in enumx.strings(kinds, max_len, min_len)]


def contents_for(path, cfg, tier):
    """The content space of one (entry point, configuration): every sequence of <= L lines over the base kinds,
    plus every sequence of <= L' lines that uses an extra kind (D duplicates, F embedded separators)."""
    L = BOUNDS[tier]["max_lines"]
    if path == "cc":
        core = any(cfg == c for c in CORE_CC)
        extra_len = (L if core else L - 1) if tier == "thorough" else (L if core else 0)
        kinds_extra = EXTRA_KINDS
        base_len = L
    elif path == "cf":
        base_len, extra_len, kinds_extra = L, L - 1, EXTRA_KINDS
    elif cfg.get("decl"):
        return _strings(BASE_KINDS, L - 2)       # the declaration dimension: every content of <= 2 (quick) / <= 3 lines
    else:
        sub = cfg["spec"] in SUBPROCESS_SPECS
        base_len = L - 1 if sub else L
        extra_len = base_len - 1 if tier == "quick" else base_len
        kinds_extra = "D" if sub else EXTRA_KINDS
    out = _strings(BASE_KINDS, base_len)
    if extra_len > 0:
        out += [x for x in _strings(BASE_KINDS + kinds_extra, extra_len) if any(k in x for k in kinds_extra)]
    return out


def check_b(case, root=None):
    own = None
    if root is None and case["path"] != "cc":
        own = root = mkscratch("c10r")
    try:
        if case["path"] == "cc":
            return check_cc(case)
        if case["path"] == "cf":
            return check_cf(case, root)
        if case["path"] == "wr":
            return check_wr(case, root)
        raise ValueError(case["path"])
    finally:
        if own:
            shutil.rmtree(own, ignore_errors=True)


def b_features(case, info=None):
    cfg = case["cfg"]
    f = {"path": case["path"], "allowlist": cfg.get("allow") is not None}
    if case["path"] == "wr":
        f["cleans"] = cleans_of(cfg)
    f.update((info or {}).get("features") or {})
    return f


def run_b(unit, tier, res):
    path = unit["path"]
    cfg = unit["cfg"]
    root = mkscratch("c10b") if path != "cc" else None
    try:
        for syms in enumx.shard(contents_for(path, cfg, tier), unit["shard"], unit["of"]):
            case = {"part": "B", "path": path, "cfg": cfg, "syms": syms}
            v, info = check_b(case, root)
            res.case(nontrivial=info["nt"], outcome=info["oc"],
                     sample=case if (len(syms) == BOUNDS[tier]["max_lines"] and "S" in syms and "X" in syms) else None)
            res.stat("B_%s_cases" % path)
            res.maxi("B_max_lines", len(syms))
            for clause, exp, obs in v:
                res.violation(clause, case, exp, obs, b_features(case, info))
    finally:
        if root:
            shutil.rmtree(root, ignore_errors=True)


# ================================================================================================
# Part C - the allow-list's key order (built from a set in insights.core.filters) is owned too
# ================================================================================================

C_KINDS = "aobN"
C_ALLOWS = [{"ALLOW": 1, "other": 1}, {"ALLOW": 2, "other": 2}, {"ALLOW": 1, "other": 1, "line": 1}]
CLAUSE_ALLOW = "determinism:one-output-over-allow-list-key-orders"
FILTER_MODULES = ("insights.core.filters", "insights.cleaner.filters")


def c_lines(syms):
    text = {"a": "ALLOW only", "o": "other only", "b": "ALLOW and other line", "N": "nothing of it"}
    return ["#T%d# %s" % (i, text[k]) for i, k in enumerate(syms)]


def c_case(allow, syms):
    return {"kind": "allow", "allow": allow, "lines": c_lines(syms)}


def check_c(desc, root=None):
    """One part-C case under two set schedules inside insights.core.filters and/or two hash seeds:
    the filters are registered in ONE add_filter call on fresh components, the filterable file spec is written."""
    case = c_case(desc["allow"], desc["syms"])
    obs = {"where": "insights/core/filters.py:88 (max_matchs builds the allow-list dict in set order) + "
                    "insights/cleaner/filters.py:22-30 (the first key in dict order is charged)"}
    via = []
    if desc.get("schedules"):
        r1 = lib.run_scheduled(lambda: lib.run_allow(case, root)["out"], FILTER_MODULES, desc["schedules"][0])
        r2 = lib.run_scheduled(lambda: lib.run_allow(case, root)["out"], FILTER_MODULES, desc["schedules"][1])
        if r1["out"] != r2["out"]:
            via.append("set-schedule")
            obs["schedules"] = {"set_schedule_1": desc["schedules"][0], "output_1": r1["out"],
                                "set_schedule_2": desc["schedules"][1], "output_2": r2["out"]}
    if desc.get("seeds"):
        k1, k2 = desc["seeds"]
        got = lib.run_children([case], [k1, k2], parallel=2)
        if got[k1][0]["out"] != got[k2][0]["out"]:
            via.append("hash-seed")
            obs["seeds"] = {"seed_1": k1, "output_1": got[k1][0]["out"], "seed_2": k2, "output_2": got[k2][0]["out"]}
    if not via:
        return []
    feats = {"clause_family": "allow-list-key-order", "via": "+".join(via), "keys": len(desc["allow"])}
    return [(CLAUSE_ALLOW, "the persisted spec is the same for every iteration order of the sets in insights.core.filters "
                           "and every PYTHONHASHSEED", obs, feats)]


def run_c(unit, tier, res):
    allow = unit["allow"]
    L = BOUNDS[tier]["max_lines"] - 1
    root = mkscratch("c10c")
    try:
        allsyms = _strings(C_KINDS, L)
        if unit.get("seeds"):
            # real seeds for the short contents (one child per seed for the whole batch)
            short = [x for x in allsyms if len(x) <= 2]
            seeds = seeds_for(tier)
            got = lib.run_children([c_case(allow, x) for x in short], seeds, parallel=8 if tier == "quick" else 4)
            for i, syms in enumerate(short):
                outs = {}
                for k in seeds:
                    outs.setdefault(_fp(got[k][i]["out"]), k)
                res.evals += len(seeds)
                res.traces += len(seeds)
                res.stat("C_seed_executions", len(seeds))
                res.outcomes.add("C:seeds:%d-outputs" % len(outs))
                if len(outs) > 1:
                    res.stat("C_cases_with_more_than_one_output_seeds")
                    desc = {"part": "C", "allow": allow, "syms": syms, "seeds": sorted(outs.values())[:2]}
                    for clause, exp, obs, feats in check_c(desc, root):
                        res.violation(clause, desc, exp, obs, feats)
            return
        for syms in enumx.shard(allsyms, unit["shard"], unit["of"]):
            case = c_case(allow, syms)
            runs, complete = lib.explore_scheduled(lambda: lib.run_allow(case, root)["out"], FILTER_MODULES)
            outs = {}
            for r in runs:
                outs.setdefault(_fp(r["out"]), r["choices"])
            res.evals += len(runs)
            res.traces += len(runs)
            res.states += len(runs)
            res.nontrivial += 1 if len(runs) > 1 and "b" in syms else 0
            res.stat("C_cases")
            res.stat("C_set_schedules_executed", len(runs))
            res.maxi("C_max_set_schedules_of_one_case", len(runs))
            res.outcomes.add("C:%d-schedules:%d-outputs" % (min(len(runs), 3), len(outs)))
            if not complete:
                res.exhaustive = False
            if len(outs) > 1:
                res.stat("C_cases_with_more_than_one_output")
                desc = {"part": "C", "allow": allow, "syms": syms,
                        "schedules": sorted(outs.values(), key=lambda ch: (len(ch), ch))[:2]}
                for clause, exp, obs, feats in check_c(desc, root):
                    res.violation(clause, desc, exp, obs, feats)
    finally:
        shutil.rmtree(root, ignore_errors=True)


# ================================================================================================
# Part D - several FRESH cleaners in one process: a fresh cleaner's output is independent of the earlier ones
# ================================================================================================
# "Cleaning the same content with the same configuration in a fresh cleaner always produces the same output": the output of a
# step (configuration, content) on a fresh Cleaner is compared between (a) a pristine interpreter in which that cleaner is the
# first one ever built and (b) the same pristine interpreter after one / two OTHER fresh cleaners have cleaned other contents
# (what the client does: the collection has its Cleaner, the check-in builds another one in the same process).  State that
# outlives a Cleaner object (class attributes, module tables, caches, shared default arguments) is visible only this way.
# The HISTORY is the case: the descriptor lists all steps; it is executed in a fork of a pristine child interpreter.

CLAUSE_HIST = "determinism:fresh-cleaner-independent-of-earlier-cleaners"
D_CLEANERS = {
    "corp-web01": {"keywords": ["KWA", "KWB"], "patterns": ["REDACTME"], "fqdn": "web01.corp.test"},
    "corp-db": {"keywords": ["KWB", "KWC"], "patterns": ["REDACTME"], "fqdn": "db.corp.test"},       # a name the others mention
    "lab-web01": {"keywords": ["KWC"], "patterns": {"regex": ["REDACT[A-Z]+"]}, "fqdn": "web01.lab.test"},
}
# per obfuscator kind: contents that mention overlapping tokens in DIFFERENT first-seen order (so the numbering differs)
D_CONTENTS = {
    "hostname-1": ["db.corp.test is the database", "web.corp.test is the front end", "db.lab.test"],
    "hostname-2": ["proxy: web.corp.test -> cache.corp.test", "", "web01 done web.lab.test cache.lab.test"],
    "ip-1": ["addr 10.1.1.1 peer 10.1.1.2"],
    "ip-2": ["addr 10.1.1.2 peer 10.1.1.3", "then 10.1.1.1"],
    "ipv6-1": ["inet6 fe80::1 2001:db8::1 scope"],
    "ipv6-2": ["inet6 2001:db8::1 fe80::2 fe80::1"],
    "mac-1": ["ether aa:bb:cc:dd:ee:ff 11:22:33:44:55:66"],
    "mac-2": ["ether 11:22:33:44:55:66 AA-BB-CC-DD-EE-01 aa:bb:cc:dd:ee:ff"],
    "keyword-1": ["x KWA y KWB z KWC"],
    "keyword-2": ["KWC KWB KWA again KWC"],
    "password-1": ["password=abc123 password: xyz"],
    "password-2": ["secret password xyz789 rest", "password=abc123"],
    "redact-1": ["ALLOW keep a", "REDACTME ALLOW b", "ALLOW c", "other line"],
    "redact-2": ["other line", "ALLOW c", "", "REDACTME"],
    "mixed-1": ["host web.corp.test addr 10.1.1.2 ether 11:22:33:44:55:66 inet6 fe80::2 password=abc123 KWB web01"],
    "mixed-2": ["KWA db.corp.test cache.corp.test 10.1.1.9 10.1.1.2 fe80::1 aa:bb:cc:dd:ee:ff password=zzz"],
}
D_CALLS = {"plain": {}, "allow-1": {"allow": {"ALLOW": 1}}, "exempt": {"no_obf": ["hostname", "ip"], "no_redact": True}}
D_REDUCED = [("corp-web01", "hostname-1", "plain"), ("corp-web01", "hostname-2", "plain"), ("corp-db", "hostname-2", "plain"),
             ("corp-web01", "ip-2", "plain"), ("corp-web01", "mixed-1", "plain"), ("corp-web01", "mixed-2", "exempt")]


def d_alphabet():
    """Every content on the first cleaner configuration; the contents of the kinds the configuration matters for (system
    host name / domain, keyword list, pattern list) and the mixed ones on the other two configurations too; plus the allow-list
    call for the redact contents and the exempting call for the mixed contents (on the first configuration)."""
    al = [("corp-web01", co, "plain") for co in sorted(D_CONTENTS)]
    al += [(cl, co, "plain") for cl in ("corp-db", "lab-web01") for co in sorted(D_CONTENTS)
           if co.split("-")[0] in ("hostname", "keyword", "redact", "mixed")]
    al += [("corp-web01", co, "allow-1") for co in ("redact-1", "redact-2")]
    al += [("corp-web01", co, "exempt") for co in ("mixed-1", "mixed-2")]
    return al


def d_step(sym):
    cl, co, call = sym
    st = {"cleaner": dict(D_CLEANERS[cl]), "lines": list(D_CONTENTS[co]), "label": "%s/%s/%s" % (cl, co, call)}
    st.update(D_CALLS[call])
    return st


def d_histories(tier):
    """All ordered pairs over the whole step alphabet (a step may follow itself) + all triples over the reduced alphabet
    (quick) / over the whole alphabet (thorough)."""
    al = d_alphabet()
    hs = [[a, b] for a in al for b in al]
    tri = al if tier == "thorough" else D_REDUCED
    hs += [[a, b, c] for a in tri for b in tri for c in tri]
    return hs


def judge_history(steps, outs, alone):
    """steps: the step dicts; outs: output per step in the history; alone: output of each step as the only cleaner of a
    pristine interpreter.  One violation for the first step whose output differs."""
    for i, st in enumerate(steps):
        if outs[i] != alone[i]:
            obs = {"step": i, "step_label": st.get("label"), "output_after_earlier_cleaners": outs[i],
                   "earlier_steps": [s.get("label") for s in steps[:i]],
                   "where": "state that outlives a Cleaner object (class attribute / module table / cache) in insights/cleaner/"}
            feats = {"clause_family": "process-history", "steps": len(steps), "first_differing_step": i}
            return [(CLAUSE_HIST, {"output_of_the_same_step_in_a_fresh_cleaner_that_is_the_first_one_of_its_interpreter": alone[i]},
                     obs, feats)]
    return []


def check_d(desc):
    """Replay / single-case form: the history and each of its steps alone, all in forks of one pristine child interpreter."""
    steps = desc["steps"]
    res = lib.run_histories([steps] + [[s] for s in steps])
    return judge_history(steps, res[0], [r[0] for r in res[1:]])


def run_d(unit, tier, res):
    al = d_alphabet()
    steps_of = dict((sym, d_step(sym)) for sym in al)
    if len(set(json.dumps([s["cleaner"], s["lines"], s.get("allow"), s.get("no_obf")], sort_keys=True)
               for s in steps_of.values())) != len(al):
        raise RuntimeError("part D alphabet has two identical steps")        # vacuity guard (LESSONS 10)
    hs = list(enumx.shard(d_histories(tier), unit["shard"], unit["of"]))
    got = lib.run_histories([[steps_of[s]] for s in al] + [[steps_of[s] for s in h] for h in hs])
    alone = dict((sym, got[i][0]) for i, sym in enumerate(al))
    rewrites = dict((sym, alone[sym] != steps_of[sym]["lines"]) for sym in al)
    res.maxi("D_alphabet_steps", len(al))
    for h, outs in zip(hs, got[len(al):]):
        steps = [steps_of[s] for s in h]
        res.case(nontrivial=rewrites[h[-1]] and any(rewrites[s] for s in h[:-1]),
                 outcome="D:%d-steps:%s" % (len(h), "same" if all(o == alone[s] for s, o in zip(h, outs)) else "differs"),
                 sample={"part": "D", "steps": steps} if len(h) == 3 and len(res.samples) < 1 else None)
        res.stat("D_histories")
        res.stat("D_histories_of_%d_cleaners" % len(h))
        res.traces += 1
        res.transitions += len(h)
        res.maxi("D_max_cleaners_in_one_process", len(h))
        for clause, exp, obs, feats in judge_history(steps, outs, [alone[s] for s in h]):
            res.violation(clause, {"part": "D", "steps": steps}, exp, obs, feats)


# ================================================================================================
# Part E - LONG contents (no internal block / buffer size may show): order, derivation, emptiness
# ================================================================================================
# Line counts just below / at / above powers of two up to 2**15 + 1; numbered (tagged) lines; the same oracle as part B,
# with compact evidence.  The sizes are not derived from any constant of the code: whatever chunking an implementation
# uses, a content longer than the chunk crosses a boundary.

LONG_SIZES = {"quick": [1023, 1024, 1025, 4095, 4096, 4097, 16383, 16384, 16385, 32768, 32769],
              "thorough": [1023, 1024, 1025, 4095, 4096, 4097, 8191, 8192, 8193, 16383, 16384, 16385, 32767, 32768, 32769,
                           65535, 65536, 65537, 100001]}
LONG_CC = [{"patterns": "plain", "allow": None, "no_redact": False, "obfuscate": True},
           {"patterns": "regex", "allow": {"ALLOW": 1000000}, "no_redact": False, "obfuscate": False},
           {"patterns": "none", "allow": {"ALLOW": 5000}, "no_redact": True, "obfuscate": True}]
LONG_BIG = {"quick": [16385, 32769], "thorough": [16385, 32769, 65537]}       # sizes for the other entry points / shapes


def long_syms(n, shape):
    """mixed: mostly ordinary lines, regularly a redacted / not-allowed / blank / whitespace / sensitive one (first and last
    line ordinary); dropped: every line is redacted or blank - nothing non-blank can be left."""
    if shape == "dropped":
        return "".join("B" if i % 5 == 3 else "X" for i in range(n))
    out = []
    for i in range(n):
        out.append("X" if i % 97 == 13 else "B" if i % 101 == 50 else "N" if i % 89 == 7 else "W" if i % 211 == 100
                   else "S" if i % 1009 == 5 else "O")
    return "".join(out)


def judge_long(syms, out_lines):
    """check_tokens with compact evidence (the first offending output line instead of the whole output)."""
    itoks = in_tokens(syms)
    otoks = out_tokens(out_lines)
    last = -1
    for j, t in enumerate(otoks):
        if t and t[0] == "T":
            k = int(t[1:])
            if k <= last:
                return [("order:tags-strictly-increasing", "tags of the output lines strictly increasing",
                         {"output_lines": len(out_lines), "first_out_of_order_output_index": j, "its_input_line": k,
                          "input_line_of_the_output_line_before": last, "line": str(out_lines[j])[:120]})]
            last = k
    bad = [j for j, t in enumerate(otoks) if t is None]
    if bad or not is_subsequence(otoks, itoks):
        return [("derivation:one-input-line-per-output-line", "output tokens a subsequence of the %d input tokens" % len(itoks),
                 {"output_lines": len(out_lines), "first_unattributable_output_index": bad[0] if bad else None,
                  "line": repr(out_lines[bad[0]])[:120] if bad else None})]
    return []


def check_long(case, root=None):
    cfg, n, path, shape = case["cfg"], case["n"], case["path"], case.get("shape", "mixed")
    syms = long_syms(n, shape)
    lines = build_lines(syms)
    own = None
    if root is None and path != "cc":
        own = root = mkscratch("c10e")
    v = []
    try:
        if path == "cc":
            out = b_cleaner(cfg).clean_content(list(lines), no_redact=cfg["no_redact"],
                                               allowlist=None if cfg["allow"] is None else dict(cfg["allow"]))
            if not isinstance(out, list):
                return [("derivation:one-input-line-per-output-line", "a list of lines", {"output": repr(out)[:200]})], {"nt": True, "oc": "E:cc:notlist"}
            v += judge_long(syms, out)
            if out and not nonblank(out):
                v.append(("emptiness:clean_content-returns-empty-list", [], {"output_lines": len(out), "first": out[:3]}))
            oc = "kept" if out else "empty"
            nt = out != lines
        elif path == "cf":
            p = os.path.join(root, "long.txt")
            with open(p, "w", newline="") as fh:
                fh.write("".join(l + "\n" for l in lines))
            b_cleaner(cfg).clean_file(p, no_redact=cfg["no_redact"], allowlist=None if cfg["allow"] is None else dict(cfg["allow"]))
            if os.path.exists(p):
                with open(p, newline="") as fh:
                    got = fh.read().split("\n")
                os.remove(p)
                if got and got[-1] == "":
                    got.pop()
                if not nonblank(got):
                    v.append(("emptiness:clean_file-removes-file", "file removed: no non-blank line is left",
                              {"file": "exists", "lines": len(got)}))
                else:
                    v += judge_long(syms, got)
                oc, nt = "kept", got != lines
            else:
                oc, nt = "removed", True
        else:
            sp = lib.make_specs(None, one_call=True)
            _, _, prov = lib.make_provider(sp, cfg["spec"], os.path.join(root, "in"), lines, lib_cleaner_case())
            r = lib.attempt_write(prov, os.path.join(root, "direct", "w.txt"))
            shutil.rmtree(os.path.join(root, "direct"), ignore_errors=True)
            shutil.rmtree(os.path.join(root, "in"), ignore_errors=True)
            status, exc, text = r
            if status == "raised":
                if text is not None:
                    v.append(("emptiness:write-raises-and-stores-nothing", "no file when the spec is dropped", {"raised": exc, "file_chars": len(text)}))
            elif status == "nothing":
                v.append(("emptiness:write-raises-and-stores-nothing", "a file, or the content error", {"file": None, "raised": None}))
            else:
                got = text.split("\n")
                if not nonblank(got):
                    v.append(("emptiness:write-raises-and-stores-nothing", "ContentException and no file: no non-blank line is left",
                              {"raised": None, "lines": len(got)}))
                else:
                    v += judge_long(syms, got)
            oc, nt = status, status != "stored" or text != "\n".join(lines)
        return v, {"nt": nt, "oc": "E:%s:%s:%s" % (path, shape, oc)}
    finally:
        if own:
            shutil.rmtree(own, ignore_errors=True)


def e_features(case):
    f = {"path": case["path"], "allowlist": case["cfg"].get("allow") is not None, "long_content": True,
         "shape": case.get("shape", "mixed")}
    return f


def long_cases(tier):
    cs = []
    for cfg in LONG_CC:
        for n in LONG_SIZES[tier]:
            cs.append({"part": "E", "path": "cc", "cfg": cfg, "n": n, "shape": "mixed"})
    for n in [1025] + LONG_BIG[tier]:
        cs.append({"part": "E", "path": "cc", "cfg": LONG_CC[0], "n": n, "shape": "dropped"})
    for n in LONG_BIG[tier]:
        cs.append({"part": "E", "path": "cf", "cfg": LONG_CC[0], "n": n, "shape": "mixed"})
        for spec in ("ds", "plain"):
            cs.append({"part": "E", "path": "wr", "cfg": {"spec": spec, "allow": None}, "n": n, "shape": "mixed"})
    cs.append({"part": "E", "path": "cf", "cfg": LONG_CC[0], "n": LONG_BIG[tier][0], "shape": "dropped"})
    cs.append({"part": "E", "path": "wr", "cfg": {"spec": "ds", "allow": None}, "n": LONG_BIG[tier][0], "shape": "dropped"})
    return cs


def run_e(unit, tier, res):
    for case in unit["cases"]:
        v, info = check_long(case)
        res.case(nontrivial=info["nt"], outcome=info["oc"], sample=case if case["n"] == 16385 and case["path"] == "cc" else None)
        res.stat("E_long_cases")
        res.stat("E_long_lines_cleaned", case["n"])
        res.maxi("E_max_lines", case["n"])
        for clause, exp, obs in v:
            res.violation(clause, case, exp, obs, e_features(case))


# ================================================================================================
# driver protocol
# ================================================================================================

def units(tier, seed):
    us = []
    ids = [c["n"] for c in cases_a(tier)]
    n = 12 if tier == "quick" else 32
    for i in range(n):                       # round-robin: the heavy hand-catalogue cases are spread over the units
        us.append({"part": "A", "cases": ids[i::n]})
    n = 2 if tier == "quick" else 8
    for i in range(n):
        us.append({"part": "A", "seeds": True, "cases": ids[i::n]})
    for cfg in cc_configs():
        n = 1 if tier == "quick" else 2
        for s in range(n):
            us.append({"part": "B", "path": "cc", "cfg": cfg, "shard": s, "of": n})
    n = 2 if tier == "quick" else 6
    for cfg in CF_CONFIGS:
        for s in range(n):
            us.append({"part": "B", "path": "cf", "cfg": cfg, "shard": s, "of": n})
    for cfg in WR_CONFIGS:
        if tier == "quick" and cfg["allow"] == {"ALLOW": 10000}:
            continue                      # quick keeps the counting allow-list only (the pre-filter spawns grep per case)
        n = (4 if tier == "quick" else 24)
        for s in range(n):
            us.append({"part": "B", "path": "wr", "cfg": cfg, "shard": s, "of": n})
    for cfg in wr_decl_configs():
        us.append({"part": "B", "path": "wr", "cfg": cfg, "shard": 0, "of": 1})
    for allow in C_ALLOWS:
        n = 1 if tier == "quick" else 4
        for s in range(n):
            us.append({"part": "C", "allow": allow, "shard": s, "of": n})
    us.append({"part": "C", "allow": C_ALLOWS[0], "seeds": True})
    if tier == "thorough":
        us.append({"part": "C", "allow": C_ALLOWS[2], "seeds": True})
    n = 6 if tier == "quick" else 64
    for s in range(n):
        us.append({"part": "D", "shard": s, "of": n})
    small, big = [], []
    for c in long_cases(tier):
        (small if c["n"] <= 4097 else big).append(c)
    for cfg in LONG_CC:
        grp = [c for c in small if c["cfg"] == cfg]
        if grp:
            us.append({"part": "E", "cases": grp})
    for c in big:
        us.append({"part": "E", "cases": [c]})
    return us


def unit_weight(u):
    if u["part"] == "A":
        return 10
    if u["part"] == "C":
        return 6
    if u["part"] == "D":
        return 8
    if u["part"] == "E":
        return 7 if max(c["n"] for c in u["cases"]) > 20000 else 4
    return {"wr": 5, "cf": 2}.get(u["path"], 1)


def run_unit(unit, tier):
    res = Result()
    if unit["part"] == "A" and unit.get("seeds"):
        run_a_seeds(unit, tier, res)
    elif unit["part"] == "A":
        run_a(unit, tier, res)
    elif unit["part"] == "C":
        run_c(unit, tier, res)
    elif unit["part"] == "D":
        run_d(unit, tier, res)
    elif unit["part"] == "E":
        run_e(unit, tier, res)
    else:
        run_b(unit, tier, res)
    return res


def replay(case):
    if case.get("part") == "D":
        vio = check_d(case)
        return [{"clause": c, "case": case, "expected": e, "observed": o, "features": f} for c, e, o, f in vio]
    if case.get("part") == "E":
        v, _ = check_long(case)
        return [{"clause": c, "case": case, "expected": e, "observed": o, "features": e_features(case)} for c, e, o in v]
    if case.get("part") == "A":
        vio = check_a(case)
        return [{"clause": c, "case": case, "expected": e, "observed": o, "features": f} for c, e, o, f in vio]
    if case.get("part") == "C":
        vio = check_c(case)
        return [{"clause": c, "case": case, "expected": e, "observed": o, "features": f} for c, e, o, f in vio]
    v, info = check_b(case)
    return [{"clause": c, "case": case, "expected": e, "observed": o, "features": b_features(case, info)} for c, e, o in v]


TECHNIQUE = ("exhaustive enumeration of all n! iteration orders of the obfuscator table (forced hashes, executed through the "
             "real clean_content, order taken measured), of every set order inside the obfuscators and inside the filter "
             "registry (schedule-driven set stand-in, stateless DFS), cross-checked under real PYTHONHASHSEED values in child "
             "interpreters; bounded exhaustive enumeration of line-kind sequences through clean_content (list and string), "
             "clean_file and the write / dehydrate path of file, command and datasource providers; exhaustive pairs / triples of "
             "fresh-cleaner steps executed in one forked pristine interpreter per history, compared with the step alone; "
             "long numbered contents around powers of two through the same order oracle")
LEVEL_TEXT = ("The scheduling freedom on the cleaning path is the iteration order of a few small hash containers: the obfuscator "
              "table (every one of its <= 720 orders is executed for every catalogued and generated competing content), sets "
              "built inside an obfuscator (every permutation of every such set of <= 5 elements) and the allow-list dict that "
              "insights.core.filters builds from a set (every permutation, through real add_filter -> provider.write). "
              "Determinism is decided for these contents over all hash seeds, not sampled; a sweep of real seeds, comparing the "
              "full output text, covers whatever else could depend on the seed. Order, derivation and emptiness are decided for "
              "every content of <= 4 (quick) / <= 5 (thorough) lines over six base line kinds (plus untagged duplicates and lines "
              "with embedded str.splitlines separators at one line less) and every listed configuration, on clean_content (list, "
              "string, same objects twice, same cleaner twice), clean_file and five provider kinds (write twice; content looked at "
              "before dehydrate). 'In a fresh cleaner' is decided against process history too: for every ordered pair (and the "
              "listed triples) of steps over 3 cleaner configurations x 2 contents per obfuscator kind, the later fresh cleaner "
              "must give what it gives as the first cleaner of a pristine interpreter. Order is also decided for contents of up "
              "to 32769 (thorough 100001) numbered lines, so no internal block size below that can reorder or merge lines.")
LEVEL_NOTE = ("Trusted: CPython small-set slot order (re-checked per execution). Part A contents: hand catalogue + generated "
              "families (substrings, every ordered pair of 9 token kinds x glue strings, same-text, substitute words) - other "
              "contents are not covered; in the quick tier the generated adjacent pairs permute only the <= 4 obfuscators involved. "
              "Set order is owned in-process only for sets created through the name `set` in insights.cleaner.* sub-modules and "
              "insights.core.filters - set displays, comprehensions, other containers and other modules are covered by the bounded "
              "real-seed sweep (16 / 64 seeds) only. Container providers are not executed (no container engine on the SAFE_ENV "
              "path); they share ContentProvider.write/_clean_content with the covered kinds. Lines with embedded separators are "
              "not sent through shell_out-based loaders (filter pre-grep, commands): the loader splits them before cleaning - C11's "
              "subject. blank = empty string as in the code (whitespace-only lines count as non-blank, DESIGN C10). Fresh-cleaner "
              "histories use clean_content only and the listed step alphabet; long contents are one periodic mix of line kinds per "
              "length (plus an all-dropped shape), not all contents of that length.")
