"""C06 - collection stays in its root, honours the deny list, writes only to the archive.

Four exhaustive enumerations against the real spec factories / providers / serializers:

  A  containment   every relative path over {.., d, f, l, secret, root, root2, T} (plus `*` for the
                   globbing factories) x every symlink layout (0, 1 or 2 links at root/l, root/d/l; 11 targets)
                   of a universe T/{root, root2, other} x root with/without trailing slash (layouts with
                   <= 1 link) x {Text, Raw} x {HostContext, HostArchiveContext} x every file factory
                   (simple_file, first_file, glob_file, foreach_collect, listdir and listglob as feeders of
                   foreach_collect).  Oracle: whenever content can be read from a returned provider,
                   realpath(provider.path) is realpath(root) or beneath it (os.path.commonpath).
                   The universe sits six directories below the scratch base, so no enumerated path can reach
                   the machine's real directories (hermetic; the design's link target `/` is represented by an
                   absolute link to an ancestor inside the scratch area).
  B  deny list     B1: every declarative datasource kind x {Text, Raw} x {unfiltered, filtered} x every prefix
                   of every produced command line / path as deny entry (exact, prefix + space, prefix without
                   space, longer) and pairs of entries (quick: every pair "denying prefix x non-denying prefix" of
                   one produced item; thorough: every pair) in BOTH iteration orders of the deny table - the
                   entries are mc.forcedhash.HStr objects, so the set order is chosen by the harness (recorded in
                   the case as `hashes`, verified after feeding), not inherited from PYTHONHASHSEED - fed directly
                   (blacklist.add_*) and through collect.apply_blacklist; B3: component names (implementation, registry point,
                   unknown) through apply_blacklist; B2: one real DefaultSpecs spec per factory kind with
                   symbolic names / component name / exact item / controls; B4: alias spellings (measurement).
                   B8: the SAME string asked as a file and as a command in one process (a host path collected by a file
                   spec and run without arguments by a command spec; the deny list names it under none / one / both of
                   `files` and `commands`; both evaluation orders and the alternating ones of length 3) through every file
                   factory x every command factory that can run a bare path; B9: every history (<= 3 quick / <= 4
                   thorough) of public calls allow_file / allow_command / add_file / add_command over a small alphabet,
                   against two independent sets + the documented rule (the deny lists of files and commands are separate).
                   Evaluated with dr.run under a recording HostContext subclass, open()/Popen audited,
                   component bodies watched with sys.setprofile.
  C  persistence   every provider family (file, command, container file, container command, DatasourceProvider)
                   x factory x save_as {none, x, dir/, absolute} x relative path / command string, persisted by
                   the real Hydration (observer on dr.run) into T/o1/o2/out; content-aware diff of the scratch area:
                   every created file beneath out, nothing that existed outside out modified / replaced / removed,
                   nothing persisted beneath out is a link resolving outside out.
                   C2: two-step histories into ONE archive - every ordered pair (factory x kind) A then B over the
                   same path and save_as, plus colliding renames over different paths, on layouts whose links have
                   absolute targets (a relative link / no link as controls).
  M  mangle        mangle_command over every token string: result is a single path component.

Readings (re-read against the statement after the seeded rounds; leniency kept only where the statement is silent):
  * listdir/listglob: the entries of a directory are that directory's content - a listing taken outside the root IS
    reported (clause containment:listing-served-from-outside-root, features listing_factory); the two factories are
    also exercised as feeders of foreach_collect, whose providers are checked.
  * deny list: a command "matches" by the documented rule (equal, or the entry followed by a space).  A FILE matches
    when the spec path equals the entry up to lexical noise (`//`, `/./`, `dir/..`: os.path.normpath) - the statement
    speaks of the file, and such a spelling names the same path (clause deny:denied-file-served-under-other-spelling).
    Kept lenient: another NAME linked to the denied file (symlink alias) is only counted - the statement does not say
    that denying a path denies every link to it; the code's extra "entry followed by a blank" rule for files is outside
    the alphabet (no file name with a blank) because the statement neither demands nor forbids it.
  * persistence: files AND directories created outside the output directory, existing entries outside modified, and
    persisted entries resolving outside are all violations ("writes only to the archive").
  * refusing a path inside the root is never a violation (the statement only forbids serving outside content).
  * iteration orders that reach a verdict are owned (deny tables: forced hashes, all orders).  glob / os.listdir /
    scandir orders only permute lists the oracle compares as sets, so they cannot change a verdict.
"""
import glob as _glob
import itertools
import os
import shutil
import sys
import types

from mc.result import Result
from mc import enumx
from harness import c06_env as E
from harness.tmp import scratch

ID = "C06"
LEVEL = "exploration"
RULE = ("A: full product layout x root-slash x context x provider kind x factory x every path of <= n segments "
        "(non-trivial: some file the path/pattern designates has its real location outside the root); "
        "B: datasource kind x (Text/Raw) x filtered x feeding route x every prefix of every produced command line/"
        "path as deny entry (non-trivial: the entry denies at least one produced item, or a component is disabled); "
        "B8: file factory x command factory over ONE string x deny {none, file, command, both} x order of evaluations in one "
        "process (non-trivial: the deny list names the string under exactly one of the two kinds); B9: every history of allow_file / allow_command / "
        "add_file / add_command calls up to a length (non-trivial: some question had to be answered 'denied'); "
        "C: provider family x factory x save_as x path/command string (non-trivial: a file was created by the persister); "
        "C2: ordered pairs of file specs persisted into one archive (non-trivial: both produced providers and the second "
        "wrote where the first had written); "
        "M: every token string (non-trivial: the raw string contains a path separator or a dot-dot)")
ASSUMPTIONS = [
    "bounded: no counterexample within the stated path length / alphabet / layouts, nothing more",
    "os.path.realpath and os.path.commonpath of the standard library are the containment reference; cross-checked "
    "on every served provider against a second formulation (each file's content names its physical location)",
    "commands are never executed: a recording HostContext returns canned output; the only real process is `cp` "
    "used by RawFileProvider.write inside the scratch area",
    "paths that do not exist cannot serve or persist content; beyond the fully enumerated length, paths one "
    "segment longer are enumerated only where they exist (glob prefilter)",
    "os.stat/os.access are not auditable events; 'opened' is observed through the `open` and `subprocess.Popen` "
    "audit events and the recording context",
]

SEG = ["..", "d", "f", "l", "secret", "root", "root2", "T"]
SEG_STAR = SEG + ["*"]
CTXS = ["HostContext", "HostArchiveContext"]
KINDS = ["Text", "Raw"]
FACT_LIT = ["simple_file", "first_file", "listdir+foreach_collect"]
FACT_GLOB = ["glob_file", "foreach_collect", "listglob+foreach_collect"]

# link targets: name -> (target when the link is root/l, target when the link is root/d/l)
TARGETS = {
    "sibling_file": ("f", "f"),
    "parent": ("..", ".."),
    "root2_secret_rel": ("../root2/secret", "../../root2/secret"),
    "other_secret_rel": ("../other/secret", "../../other/secret"),
    "root2_dir_rel": ("../root2", "../../root2"),
    "other_dir_rel": ("../other", "../../other"),
    "T_secret_abs": ("{T}/secret", "{T}/secret"),
    "root2_secret_abs": ("{T}/root2/secret", "{T}/root2/secret"),
    "root_f_abs": ("{T}/root/f", "{T}/root/f"),
    "ancestor_abs": ("{B}", "{B}"),      # absolute link to an ancestor of the root (the parent of T, which holds only T/).
                                          # Stands in for the design's `/`: reaching the machine's real directories would make
                                          # cases depend on /proc, /dev, /root ... (racy, machine specific, /dev/tty blocks).
    "chain": ("d/l", "../l"),
}
TNAMES = list(TARGETS)

BOUNDS = {
    "quick": {"A_path_segments_full": 3, "A_path_segments_existing_only": 4, "A_layouts": "none + 22 single links + 20 two-link chains; root forms: plain (all), trailing slash (none + 11 links at root/l), symlinked root (none + 5 links at root/l)", "A_extra_paths": "10 degenerate spellings ('', ., /, //f, ./f, d/./f, d//f, f/, f/., d/) + metachar patterns (one segment of ?, [dfl], root?, r*, *[!x], [s]ecret) that match",
              "B_entries": "every prefix of every produced item, item+' x', item+'x'", "B_simultaneous_entries": "unfiltered units: prefix-related pairs (denying x non-denying prefix of one item) in both table orders, prefix chains of 3 (a<d<b) in all 6 orders", "B_other": "B2 real specs, B3 component names, B4 aliases x 4 factories, B5 mixed files/commands/components configurations (200), B6 evaluate-extend-evaluate histories",
              "B8_same_string_as_file_and_command": "4 file factories x 3 command factories (bare path) x {Text, Raw} x deny {none, file, command, both} x 2 feeding routes x evaluation orders {FC, CF, FCF, CFC} in one process; string /bin/echo",
              "B9_history_length": 3, "B9_alphabet": "ask(file|command, s) for 4 strings, add(file|command, e) for 2 entries; every history ending in a question, from empty tables, 2 feeding routes",
              "C_file_path_segments": 5, "C_layouts": 3, "C2_path_segments": 2, "C2_layouts": 4, "C_save_as": "none, '', /, x, dir/, absolute", "C_container_ids": "c1, .., ../.., a/b, absolute", "C_cmd_tokens": 3, "C_label_segments": 5, "M_tokens": 5},
    "thorough": {"A_path_segments_full": 4, "A_path_segments_existing_only": 5, "A_layouts": "none + 22 single links + all 121 two-link pairs; root forms: plain (all), trailing slash (none + 22 single links), symlinked root (none + 11 links at root/l), symlink+slash (none)", "A_extra_paths": "10 degenerate spellings + metachar patterns that match",
                 "B_entries": "every prefix of every produced item, item+' x', item+'x'", "B_simultaneous_entries": "all pairs in both orders; prefix chains of 3 (every shorter non-denying prefix x denying x 2 extensions) in all 6 orders", "B_other": "as quick",
                 "B8_same_string_as_file_and_command": "as quick with all 8 orders of length <= 3 that ask under both kinds; strings /bin/echo, /usr/bin/env",
                 "B9_history_length": 4, "B9_alphabet": "as quick",
                 "C_file_path_segments": 5, "C_layouts": 8, "C2_path_segments": 3, "C2_layouts": 8, "C_save_as": "none, '', /, x, dir/, absolute", "C_container_ids": "c1, .., ../.., a/b, absolute", "C_cmd_tokens": 4, "C_label_segments": 5, "M_tokens": 6},
}
CAP_S = {"quick": 600, "thorough": 3000}      # wall-clock guards only; the machine is shared, cost is tracked in CPU seconds


# =============================================================================================
# lazily imported implementation
# =============================================================================================

_I = {}


def imp():
    if not _I:
        import logging
        logging.disable(logging.CRITICAL)
        from insights.core import dr, blacklist, filters, plugins
        from insights.core import spec_factory as sf
        from insights.core import context as cx
        from insights.core.serde import Hydration
        from insights.core.exceptions import SkipComponent
        from insights.util.mangle import mangle_command
        from insights import collect
        _I.update(dr=dr, blacklist=blacklist, filters=filters, plugins=plugins, sf=sf, cx=cx, Hydration=Hydration,
                  SkipComponent=SkipComponent, mangle=mangle_command, collect=collect)
    return _I


def kind_class(kind):
    sf = imp()["sf"]
    return sf.TextFileProvider if kind == "Text" else sf.RawFileProvider


_SRC = {}


def seeded_source(ctxcls):
    """A datasource whose value is always seeded into the broker by the harness (dr never runs it)."""
    if ctxcls not in _SRC:
        I = imp()

        def c06_seeded_items(broker):
            raise I["SkipComponent"]()
        _SRC[ctxcls] = I["plugins"].datasource(ctxcls)(c06_seeded_items)
    return _SRC[ctxcls]


def all_paths(alphabet, lo, hi):
    for n in range(lo, hi + 1):
        for t in itertools.product(alphabet, repeat=n):
            yield "/".join(t)


# =============================================================================================
# Part A - containment
# =============================================================================================

def layouts(tier):
    out = [[]]
    for li, loc in enumerate(E.LINK_LOCS):
        for t in TNAMES:
            out.append([[loc, TARGETS[t][li]]])
    for t0 in TNAMES:
        for t1 in TNAMES:
            if tier == "quick" and (t0 == "chain") == (t1 == "chain"):
                continue            # quick: exactly one of the two links points at the other one
            out.append([["l", TARGETS[t0][0]], ["d/l", TARGETS[t1][1]]])
    return out


def real(p):
    try:
        return os.path.realpath(p)
    except OSError:
        return os.path.abspath(p)


def location_class(rp, T, realroot):
    """Structural description of where the served file really is."""
    if E.beneath(rp, realroot):
        return "inside"
    if rp.startswith(realroot):
        return "sibling_sharing_name_prefix"          # e.g. T/root2/... : string prefix, not a path prefix
    if E.beneath(rp, os.path.realpath(T)):
        return "elsewhere_beneath_parent"
    return "absolute_elsewhere"


def show(p, T):
    rt = os.path.realpath(T)
    if E.beneath(p, rt):
        return "T/" + os.path.relpath(p, rt)
    return p


def first_line(content):
    if isinstance(content, bytes):
        return content.split(b"\n")[0].decode("utf-8", "replace")
    if isinstance(content, list):
        return content[0] if content else ""
    return str(content)


def a_exec(root_arg, ctxname, kind, factory, path):
    """Builds the factory freshly, invokes it under a fresh broker; returns (providers, listing, components)."""
    I = imp()
    sf, dr = I["sf"], I["dr"]
    ctxcls = getattr(I["cx"], ctxname)
    ctx = ctxcls(root=root_arg)
    broker = dr.Broker()
    broker[ctxcls] = ctx
    k = kind_class(kind)
    comps = []
    listing = None
    provs = []
    try:
        if factory == "simple_file":
            ds = sf.simple_file(path, context=ctxcls, kind=k)
            comps.append(ds)
            provs = [ds(broker)]
        elif factory == "first_file":
            ds = sf.first_file(["c06-absent", path], context=ctxcls, kind=k)
            comps.append(ds)
            provs = [ds(broker)]
        elif factory == "glob_file":
            ds = sf.glob_file(path, context=ctxcls, kind=k)
            comps.append(ds)
            provs = list(ds(broker))
        elif factory == "foreach_collect":
            src = seeded_source(ctxcls)
            broker[src] = [path]
            ds = sf.foreach_collect(src, "%s", context=ctxcls, kind=k)
            comps.append(ds)
            provs = list(ds(broker))
        elif factory == "listdir+foreach_collect":
            ld = sf.listdir(path, context=ctxcls)
            comps.append(ld)
            listing = ld(broker)
            broker[ld] = listing
            ds = sf.foreach_collect(ld, path + "/%s", context=ctxcls, kind=k)
            comps.append(ds)
            provs = list(ds(broker))
        elif factory == "listglob+foreach_collect":
            lg = sf.listglob(path, context=ctxcls)
            comps.append(lg)
            listing = lg(broker)
            broker[lg] = listing
            ds = sf.foreach_collect(lg, "%s", context=ctxcls, kind=k)
            comps.append(ds)
            provs = list(ds(broker))
        else:
            raise ValueError(factory)
    except ValueError:
        raise
    except Exception:
        pass                    # refusing (any exception) is always allowed
    return provs, listing, comps


def root_argument(T, root, case):
    """The root string handed to the context: plain, with a trailing slash, or a symlink to the root
    (T/rootlink -> root, created by build_universe)."""
    form = case.get("root_form") or ("slash" if case.get("slash") else "plain")
    if form == "plain":
        return root
    if form == "slash":
        return root + "/"
    if form == "symlink":
        return os.path.join(T, "rootlink")
    if form == "symlink-slash":
        return os.path.join(T, "rootlink") + "/"
    raise ValueError(form)


def a_check(T, root, case, realroot=None, lcache=None):
    """One containment case on an existing universe. Returns (violations, info)."""
    root_arg = root_argument(T, root, case)
    realroot = realroot or os.path.realpath(root)
    provs, listing, comps = a_exec(root_arg, case["ctx"], case["kind"], case["factory"], case["path"])
    viols = []
    served_in = served_out = unreadable = 0
    try:
        for p in provs:
            sl = None
            if case["kind"] == "Text":
                try:
                    sl = next(iter(p.stream()), "")     # second public read channel (what `find` uses), before .content caches
                except Exception:
                    sl = None
            try:
                content = p.content
            except Exception:
                unreadable += 1
                continue
            rp = os.path.realpath(p.path)
            cls = location_class(rp, T, realroot)
            line = first_line(content)
            marker_inside = line.startswith("AT ") and line[3:].split("/")[0] == "root"
            if marker_inside != (cls == "inside"):
                raise RuntimeError("containment reference and content marker disagree: %r %r %r" % (case, rp, line))
            if sl is not None and sl != line:
                raise RuntimeError("stream() and content disagree: %r %r %r" % (case, sl, line))
            if cls == "inside":
                served_in += 1
            else:
                served_out += 1
                viols.append(("containment:content-served-from-outside-root",
                              "real location of served content is %s or beneath it" % show(realroot, T),
                              {"provider_relative_path": p.relative_path,
                               "real_location": show(rp, T), "content_first_line": line},
                              {"escape_via": cls}))
    finally:
        E.purge_components(comps)
    lst_out = 0
    if listing:
        key = (case["factory"], case["path"], tuple(listing))
        lst_out = lcache.get(key) if lcache is not None else None
        if lst_out is None:
            if case["factory"].startswith("listdir"):
                lst_out = 0 if E.beneath(real(os.path.join(root, case["path"].lstrip("/"))), realroot) else 1
            else:
                # a listed name is content of the directory it was found in (a symlink's NAME lies where the link lies,
                # whatever it points to; opening it is the file factories' business and judged there)
                lst_out = 1 if any(not E.beneath(real(os.path.dirname(os.path.join(root, i))), realroot) for i in listing) else 0
            if lcache is not None:
                lcache[key] = lst_out
    if lst_out:
        # statement: "a file datasource never yields content whose real location lies outside the root" - the entries of a
        # directory are that directory's content; a listing taken outside the root is reported (own clause, own features)
        fam = "listdir" if case["factory"].startswith("listdir") else "listglob"
        viols.append(("containment:listing-served-from-outside-root",
                      "every listed directory entry lies at or beneath %s" % show(realroot, T),
                      {"listing": [str(x) for x in listing][:6]}, {"listing_factory": fam}))
    info = {"served_in": served_in, "served_out": served_out, "unreadable": unreadable,
            "providers": len(provs), "listing_outside": lst_out}
    return viols, info


QUICK_SYMLINK_ROOT_TARGETS = ["..", "../root2/secret", "{T}/secret", "{T}/root/f", "{B}"]
EXTRA_LIT = ["", ".", "/", "//f", "./f", "d/./f", "d//f", "f/", "f/.", "d/"]     # empty / degenerate spellings
META = ["?", "[dfl]", "root?", "r*", "*[!x]", "[s]ecret"]


def meta_patterns(n):
    out = []
    for k in range(1, n + 1):
        for pos in range(k):
            for t in itertools.product(SEG, repeat=k - 1):
                for m in META:
                    segs = list(t[:pos]) + [m] + list(t[pos:])
                    out.append("/".join(segs))
    return out


def designates_outside(root, realroot, path, cache):
    """Measured non-triviality: does the path / pattern designate something whose real location is outside the root?"""
    v = cache.get(path)
    if v is None:
        full = os.path.join(root, path)
        if _glob.has_magic(path):
            cands = _glob.glob(full)
        else:
            cands = [full] if os.path.exists(full) else []
        v = (bool(cands), any(not E.beneath(real(c), realroot) for c in cands))
        cache[path] = v
    return v


def run_A(unit, tier, res):
    full_n = BOUNDS[tier]["A_path_segments_full"]
    more_n = BOUNDS[tier]["A_path_segments_existing_only"]
    with scratch("c06a") as base:
        T, root = E.build_universe(base, unit["links"])
        realroot = os.path.realpath(root)
        lit = EXTRA_LIT + list(all_paths(SEG, 1, full_n))
        star = EXTRA_LIT + list(all_paths(SEG_STAR, 1, full_n))
        # one segment longer: only those that designate something (a path that does not exist serves nothing)
        lit_more = [p for p in all_paths(SEG, full_n + 1, more_n) if os.path.lexists(os.path.join(root, p))]
        star_more = [p for p in all_paths(SEG_STAR, full_n + 1, more_n)
                     if ("*" in p and _glob.glob(os.path.join(root, p))) or
                     ("*" not in p and os.path.lexists(os.path.join(root, p)))]
        # glob metacharacters inside a segment: every path of <= n segments with exactly one segment replaced by one of
        # META, kept where the pattern matches something (a pattern that matches nothing serves nothing)
        meta = [p for p in meta_patterns(full_n) if _glob.glob(os.path.join(root, p))]
        star_more = star_more + meta
        res.stat("A_longer_paths_existing", len(lit_more) + len(star_more) - len(meta))
        res.stat("A_metachar_patterns_matching", len(meta))
        cache = {}
        lcache = {}
        for ctxname in CTXS:
            for kind in KINDS:
                for factory in FACT_LIT + FACT_GLOB:
                    plist = (star + star_more) if factory in FACT_GLOB else (lit + lit_more)
                    for path in plist:
                        case = {"part": "A", "links": unit["links"], "root_form": unit["root_form"], "ctx": ctxname,
                                "kind": kind, "factory": factory, "path": path}
                        viols, info = a_check(T, root, case, realroot, lcache)
                        exists, outside = designates_outside(root, realroot, path, cache)
                        res.evals += 1
                        if outside:
                            res.nontrivial += 1
                        res.outcomes.add("A:%s:%s:%s:%s" % (factory, "out" if outside else ("in" if exists else "absent"),
                                                            "served" if info["served_in"] + info["served_out"] else
                                                            ("unreadable" if info["unreadable"] else "refused"),
                                                            "ESC" if info["served_out"] else "-"))
                        if info["served_in"]:
                            res.stat("A_served_inside", 1)
                        if outside and not info["served_out"]:
                            res.stat("A_outside_refused_or_unreadable", 1)
                        if info["listing_outside"]:
                            res.stat("listing_outside_root", 1)
                        for clause, exp, obs, feats in viols:
                            res.violation(clause, case, exp, obs, feats)
        res.samples.append({"part": "A", "links": unit["links"], "root_form": unit["root_form"], "ctx": "HostContext",
                            "kind": "Text", "factory": "simple_file", "path": "d/../l"})


def replay_A(case):
    with scratch("c06a") as base:
        T, root = E.build_universe(base, case["links"])
        viols, _ = a_check(T, root, case)
    return viols


# =============================================================================================
# synthetic spec sets (a SpecSet hierarchy living in its own importable module)
# =============================================================================================

_SEQ = [0]


class Built(object):
    """A freshly declared Specs/Impl pair. specs: list of dicts (name, rp, impl, sem, items, etype, reports)."""

    def __init__(self):
        I = imp()
        _SEQ[0] += 1
        self.modname = "verifc06m%d" % _SEQ[0]
        self.mod = types.ModuleType(self.modname)
        sys.modules[self.modname] = self.mod
        self.rps = {}
        self.impls = {}
        self.specs = []
        self.extra = []             # provider datasources
        self.I = I

    def source(self, value):
        I = self.I
        val = value

        def c06_items(broker):
            return val
        c06_items.__module__ = self.modname
        c06_items.__qualname__ = c06_items.__name__ = "c06_items%d" % len(self.extra)
        ds = I["plugins"].datasource(I["cx"].HostContext)(c06_items)
        self.extra.append(ds)
        return ds

    def add(self, name, impl, sem, items, etype, reports=False, **rpkw):
        self.rps[name] = self.I["sf"].RegistryPoint(**rpkw)
        self.impls[name] = impl
        self.specs.append({"name": name, "sem": sem, "items": list(items), "etype": etype, "reports": reports})

    def finish(self):
        sf = self.I["sf"]
        d = {"__module__": self.modname}
        d.update(self.rps)
        self.Specs = sf.SpecSetMeta("Specs", (sf.SpecSet,), d)
        d = {"__module__": self.modname}
        d.update(self.impls)
        self.Impl = sf.SpecSetMeta("Impl", (self.Specs,), d)
        self.mod.Specs = self.Specs
        self.mod.Impl = self.Impl
        for s in self.specs:
            s["rp"] = self.rps[s["name"]]
            s["impl"] = self.impls[s["name"]]
        return self

    def graph(self):
        dr = self.I["dr"]
        g = {}
        for s in self.specs:
            g.update(dr.get_dependency_graph(s["rp"]))
        return g

    def dispose(self):
        comps = list(self.rps.values()) + list(self.impls.values()) + self.extra
        names = [self.I["dr"].get_name(c) for c in comps]
        E.purge_components(comps, names)
        sys.modules.pop(self.modname, None)


# =============================================================================================
# Part B - deny list
# =============================================================================================

B_FILES = ["root/g/a", "root/g/ab", "root/g/b", "root/etc/hosts", "root/etc/sysctl.d/a.conf", "root/meminfo",
           "root/proc/123/limits"]
FILE_VARIANTS = ["simple_file", "glob_file", "first_file", "foreach_collect"]
CMD_VARIANTS = ["simple_command", "command_with_args", "foreach_execute", "container_execute", "container_collect"]
FILTER_TEXT = "canned"


def b_build(variant, kind, filtered):
    """Declares the spec set of one variant; items = what each spec produces when nothing is denied."""
    I = imp()
    sf, HC = I["sf"], I["cx"].HostContext
    b = Built()
    rpkw = {"filterable": True} if filtered else {}
    k = kind_class(kind)
    if variant == "simple_file":
        b.add("s1", sf.simple_file("/g/a", context=HC, kind=k), "single", ["/g/a"], "file", reports=True, raw=(kind == "Raw"), **rpkw)
        b.add("s2", sf.simple_file("/g/ab", context=HC, kind=k), "single", ["/g/ab"], "file", reports=True, raw=(kind == "Raw"), **rpkw)
    elif variant == "glob_file":
        b.add("s1", sf.glob_file("/g/*", context=HC, kind=k), "multi", ["/g/a", "/g/ab", "/g/b"], "file",
              multi_output=True, raw=(kind == "Raw"), **rpkw)
    elif variant == "first_file":
        b.add("s1", sf.first_file(["/g/a", "/g/b"], context=HC, kind=k), "first", ["/g/a", "/g/b"], "file", raw=(kind == "Raw"), **rpkw)
        b.add("s2", sf.first_file(["/g/ab", "/g/a"], context=HC, kind=k), "first", ["/g/ab", "/g/a"], "file", raw=(kind == "Raw"), **rpkw)
    elif variant == "foreach_collect":
        src = b.source(["a", "ab", "b", ""])           # the empty element designates the directory itself: never a provider
        b.add("s1", sf.foreach_collect(src, "/g/%s", context=HC, kind=k), "multi", ["/g/a", "/g/ab", "/g/b"], "file",
              multi_output=True, raw=(kind == "Raw"), **rpkw)
    elif variant == "simple_command":
        b.add("s1", sf.simple_command("/bin/echo a b", context=HC), "single", ["/bin/echo a b"], "command", reports=True, **rpkw)
        b.add("s2", sf.simple_command("/bin/echo ab", context=HC), "single", ["/bin/echo ab"], "command", reports=True, **rpkw)
        # quoting and a doubled blank: the deny rule works on the command STRING, execution on its shlex split
        b.add("s3", sf.simple_command("/bin/echo 'a  b' c", context=HC), "single", ["/bin/echo 'a  b' c"], "command",
              reports=True, **rpkw)
    elif variant == "command_with_args":
        b.add("s1", sf.command_with_args("/bin/echo %s", b.source("a b"), context=HC), "single", ["/bin/echo a b"], "command", **rpkw)
        b.add("s2", sf.command_with_args("/bin/echo %s %s", b.source(("ab", "c")), context=HC), "single", ["/bin/echo ab c"],
              "command", **rpkw)
    elif variant == "foreach_execute":
        b.add("s1", sf.foreach_execute(b.source(["a b", "ab", "a"]), "/bin/echo %s", context=HC), "multi",
              ["/bin/echo a b", "/bin/echo ab", "/bin/echo a"], "command", multi_output=True, **rpkw)
    elif variant == "container_execute":
        src = b.source([("img", "env", "c1"), ("img", "env", "c12"), ("img", "env", "c1", "x")])
        b.add("s1", sf.container_execute(src, "echo a b", context=HC), "multi",
              ["/usr/bin/env exec c1 echo a b", "/usr/bin/env exec c12 echo a b"], "command", multi_output=True, **rpkw)
        b.specs[-1]["items"] = ["/usr/bin/env exec c1 echo a b", "/usr/bin/env exec c12 echo a b"]
        # third tuple carries an argument the command template has no slot for -> the factory skips it ('%' formatting error)
    elif variant == "container_collect":
        src = b.source([("img", "env", "c1", "/g/a"), ("img", "env", "c1", "/g/ab"), ("img", "env", "c12", "/g/a")])
        b.add("s1", sf.container_collect(src, context=HC), "multi",
              ["/usr/bin/env exec c1 cat /g/a", "/usr/bin/env exec c1 cat /g/ab", "/usr/bin/env exec c12 cat /g/a"],
              "command", multi_output=True, **rpkw)
    else:
        raise ValueError(variant)
    b.finish()
    if filtered:
        for s in b.specs:
            I["filters"].add_filter(s["rp"], FILTER_TEXT)
    return b


B_ITEMS = {
    "simple_file": ["/g/a", "/g/ab"], "glob_file": ["/g/a", "/g/ab", "/g/b"], "first_file": ["/g/a", "/g/ab", "/g/b"],
    "foreach_collect": ["/g/a", "/g/ab", "/g/b"],
    "simple_command": ["/bin/echo a b", "/bin/echo ab", "/bin/echo 'a  b' c"],
    "command_with_args": ["/bin/echo a b", "/bin/echo ab c"],
    "foreach_execute": ["/bin/echo a b", "/bin/echo ab", "/bin/echo a"],
    "container_execute": ["/usr/bin/env exec c1 echo a b", "/usr/bin/env exec c12 echo a b"],
    "container_collect": ["/usr/bin/env exec c1 cat /g/a", "/usr/bin/env exec c1 cat /g/ab", "/usr/bin/env exec c12 cat /g/a"],
}


def b_entries(variant):
    """Every prefix of every produced item, plus two longer strings per item. Deterministic order."""
    out = []
    for it in B_ITEMS[variant]:
        for n in range(1, len(it) + 1):
            out.append(it[:n])
        out.append(it + " x")
        out.append(it + "x")
    out += ["", " "]            # falsy / blank entries: deny nothing (no produced item starts with a blank)
    seen = set()
    return [e for e in out if not (e in seen or seen.add(e))]


def b_prefix_triples(variant, tier):
    """Chains of three entries that are all string prefixes of one produced item c: a < d < b with d denying c and
    a, b not denying (a: mid-word prefix of d; b: d plus a trailing blank / plus a mid-word part of the next word).
    quick: a = d[:-1]; thorough: every non-denying prefix of d.  All 6 table orders are run for each."""
    etype = "file" if variant in FILE_VARIANTS else "command"
    out, seen = [], set()
    for it in B_ITEMS[variant]:
        pre = [it[:n] for n in range(1, len(it) + 1)]
        den = [e for e in pre if ref_denied(it, [e], etype)]
        for d in den:
            shorter = [e for e in pre if len(e) < len(d) and not ref_denied(it, [e], etype)]
            a_set = shorter if tier == "thorough" else shorter[-1:]
            b_set = [e for e in (it[:len(d) + 1], it[:len(d) + 2]) if len(e) > len(d) and not ref_denied(it, [e], etype)]
            if not b_set:
                b_set = [d + "x"]
            for a in a_set:
                for b in b_set:
                    key = (a, d, b)
                    if key not in seen:
                        seen.add(key)
                        out.append([a, d, b])
    return out


def b_prefix_pairs(variant):
    """Pairs of deny entries that are both string prefixes of one produced item, one of them denying it under the
    documented rule and the other one not (a mid-word prefix, or a prefix ending in a blank): the lists where an
    implementation that stops at the first string-prefix entry goes wrong.  Unordered, deterministic order."""
    etype = "file" if variant in FILE_VARIANTS else "command"
    ents = b_entries(variant)
    out, seen = [], set()
    for it in B_ITEMS[variant]:
        pre = [e for e in ents if it.startswith(e)]
        den = [e for e in pre if ref_denied(it, [e], etype)]
        non = [e for e in pre if not ref_denied(it, [e], etype)]
        for d in den:
            for n in non:
                key = (d, n)
                if key not in seen:
                    seen.add(key)
                    out.append([d, n])
    return out


def ref_denied(item, entries, etype):
    """Documented matching rule, written independently of blacklist.py."""
    for e in entries:
        if item == e:
            return True
        if etype == "command" and item[:len(e) + 1] == e + " ":
            return True
    return False


def ref_expected(spec, entries):
    items = spec["items"]
    ok = [i for i in items if not ref_denied(i, entries, spec["etype"])]
    if spec["sem"] == "first":
        return ok[:1]
    return ok


def provider_item(p):
    if getattr(p, "cmd", None):
        return p.cmd
    return "/" + p.relative_path


def b_observe(built, root, base, seeds=None, watch=()):
    """dr.run of the spec graph under the recording context, then content of everything at the registry
    points is read (what the persister would do). Returns observation dict."""
    I = imp()
    dr = I["dr"]
    Rec = E.recording_context_class()
    ctx = Rec(root=root)
    broker = dr.Broker()
    broker[I["cx"].HostContext] = ctx
    for k, v in (seeds or {}).items():
        broker[k] = v
    entered = []
    watch_ids = dict((id(w), n) for n, w in watch)
    codes = set()
    for _n, w in watch:
        fn = getattr(type(w), "__call__", None)
        if fn is not None and hasattr(fn, "__code__"):
            codes.add(fn.__code__)
        elif hasattr(w, "__code__"):
            codes.add(w.__code__)

    def prof(frame, event, arg):
        if event == "call" and frame.f_code in codes:
            me = frame.f_locals.get("self")
            n = watch_ids.get(id(me))
            if n is not None:
                entered.append(n)

    graph = built.graph()
    got = {}
    with E.audit(base) as sink:
        sys.setprofile(prof)
        try:
            dr.run(graph, broker)
        finally:
            sys.setprofile(None)
        for name, rp in [(s["name"], s["rp"]) for s in built.specs]:
            v = broker.get(rp)
            provs = v if isinstance(v, list) else ([v] if v is not None else [])
            items = []
            for p in provs:
                it = provider_item(p)
                try:
                    p.content
                    items.append([it, "read"])
                except Exception as ex:
                    items.append([it, "unreadable:" + type(ex).__name__])
            got[name] = items
    lines, argvs = E.logged_command_lines(ctx.log)
    return {"got": got, "lines": lines, "argvs": argvs, "opens": [p for (ev, p) in sink if ev == "open"],
            "execs": [a for (ev, a) in sink if ev == "exec"], "entered": entered,
            "blacklisted": list(I["blacklist"].BLACKLISTED_SPECS)}


def b_feed(feed, etype, entries, hashes=None):
    """Feeds the deny entries.  The deny tables are sets: their iteration order is owned by the harness - the
    entries are str subclasses with forced hashes (mc.forcedhash.HStr, equal to the plain text), so the table
    iterates in ascending order of `hashes`.  The order really obtained is verified."""
    from mc.forcedhash import HStr
    I = imp()
    bl = I["blacklist"]
    if not entries:
        return
    hashes = list(hashes) if hashes is not None else list(range(len(entries)))
    objs = [HStr(t, h) for t, h in zip(entries, hashes)]
    want = [t for _h, t in sorted(zip(hashes, entries))]
    if [str(x) for x in set(objs)] != want:             # the forced-hash premise, checked on a fresh small set
        raise RuntimeError("forced iteration order not obtained: %r != %r" % ([str(x) for x in set(objs)], want))
    if feed == "direct":
        for o in objs:
            (bl.add_file if etype == "file" else bl.add_command)(o)
    elif feed == "apply_blacklist":
        I["collect"].apply_blacklist({"files" if etype == "file" else "commands": objs})
    else:
        raise ValueError(feed)


def b_judge(specs, entries, etype, obs, root):
    """Compares an observation with the reference model. specs: list of spec dicts; entries: list (of type `etype`)
    or a dict {"file": [...], "command": [...]}. Returns violations."""
    import shlex
    ents = entries if isinstance(entries, dict) else {etype: list(entries)}
    file_entries, cmd_entries = list(ents.get("file", [])), list(ents.get("command", []))
    viols = []
    denied_items = set()
    for s in specs:
        for it in s["items"]:
            if ref_denied(it, ents.get(s["etype"], []), s["etype"]):
                denied_items.add(it)
    for s in specs:
        exp = ref_expected(s, ents.get(s["etype"], []))
        got = [it for it, _how in obs["got"].get(s["name"], [])]
        for it in got:
            if it in denied_items:
                viols.append(("deny:denied-item-yields-provider", {"spec": s["name"], "providers": exp},
                              {"spec": s["name"], "providers": got}, {"denied_item_kind": s["etype"]}))
                break
        missing = [it for it in exp if it not in got]
        if missing:
            viols.append(("deny:allowed-item-not-collected", {"spec": s["name"], "providers": exp},
                          {"spec": s["name"], "providers": got}, {}))
        unreadable = [x for x in obs["got"].get(s["name"], []) if x[1] != "read"]
        if unreadable:
            viols.append(("deny:allowed-item-not-collected", {"spec": s["name"], "content": "readable"},
                          {"spec": s["name"], "unreadable": unreadable}, {}))
        if s.get("reports") and s["sem"] == "single" and s["items"][0] in denied_items and s["name"] not in obs["blacklisted"]:
            viols.append(("deny:denied-spec-not-reported", {"BLACKLISTED_SPECS contains": s["name"]},
                          {"BLACKLISTED_SPECS": obs["blacklisted"]}, {}))
    # executed command lines: a logged argv is attributed to the produced command string it is the shlex split of
    # (falls back to the blank-joined argv), then judged by the rule on the STRING
    by_argv = {}
    for s in specs:
        if s["etype"] == "command":
            for it in s["items"]:
                try:
                    by_argv.setdefault(tuple(shlex.split(it)), it)
                except ValueError:
                    pass
    for argv in obs["argvs"]:
        line = by_argv.get(tuple(argv), " ".join(argv))
        if ref_denied(line, cmd_entries, "command"):
            viols.append(("deny:denied-command-executed", "no command line matching %r" % (cmd_entries,), {"executed": line}, {}))
    denied_abs = set(root + e for e in file_entries if e.startswith("/"))
    denied_real = set(os.path.realpath(p) for p in denied_abs if os.path.isfile(p))
    for it, _how in [x for s in specs if s["etype"] == "file" for x in obs["got"].get(s["name"], [])]:
        # the statement speaks of the FILE: a provider whose path is the denied path up to lexical noise (//, /./, dir/..)
        if it not in denied_items and os.path.normpath(root + it) in denied_abs:
            viols.append(("deny:denied-file-served-under-other-spelling", "no provider for %r under any spelling" % (file_entries,),
                          {"provider_path": it}, {"spelling": "lexical"}))
    for p in obs["opens"]:
        if p in denied_abs:
            viols.append(("deny:denied-file-opened", "no open() of %r" % (file_entries,), {"opened": "<root>" + p[len(root):]}, {}))
        elif os.path.normpath(p) in denied_abs:
            viols.append(("deny:denied-file-served-under-other-spelling", "no open() of %r under any spelling" % (file_entries,),
                          {"opened": "<root>" + p[len(root):]}, {"spelling": "lexical"}))
    for argv in obs["argvs"] + obs["execs"]:
        if any(a in denied_abs for a in argv):
            viols.append(("deny:denied-file-read-by-process", "no process reads %r" % (file_entries,),
                          {"argv": [a.replace(root, "<root>") for a in argv]}, {}))
    return viols


def symlink_alias_opens(obs, entries, root):
    """Counted only (the statement does not say whether denying a path also denies other NAMES linked to it)."""
    denied_abs = set(root + e for e in entries)
    denied_real = set(os.path.realpath(p) for p in denied_abs)
    return sum(1 for p in obs["opens"] if p not in denied_abs and os.path.normpath(p) not in denied_abs and real(p) in denied_real)


ALIASES = ["/g/../g/a", "/g//a", "/./g/a", "//g/a", "/g/./a", "/g/a/", "/ga_link"]


def b4_check(case):
    """A denied file (/g/a) designated under another spelling by every file factory.
    case: {"part":"B4","factory", "alias": one of ALIASES, "kind": "Text"|"Raw"}.  Lexical aliases are judged by b_judge
    (clause deny:denied-file-served-under-other-spelling); the symlink alias is only counted."""
    I = imp()
    sf, HC = I["sf"], I["cx"].HostContext
    alias, k = case["alias"], kind_class(case["kind"])
    with scratch("c06b") as base:
        T, root = E.build_universe(base, links=[["ga_link", "g/a"]], extra_files=B_FILES)
        with E.GlobalState():
            b = Built()
            f = case["factory"]
            raw = case["kind"] == "Raw"
            if f == "simple_file":
                b.add("s1", sf.simple_file(alias, context=HC, kind=k), "single", [], "file", raw=raw)
            elif f == "first_file":
                b.add("s1", sf.first_file([alias], context=HC, kind=k), "first", [], "file", raw=raw)
            elif f == "glob_file":
                b.add("s1", sf.glob_file(alias, context=HC, kind=k), "multi", [], "file", multi_output=True, raw=raw)
            elif f == "foreach_collect":
                b.add("s1", sf.foreach_collect(b.source([alias]), "%s", context=HC, kind=k), "multi", [], "file",
                      multi_output=True, raw=raw)
            else:
                raise ValueError(f)
            b.finish()
            try:
                I["blacklist"].add_file("/g/a")
                obs = b_observe(b, root, base)
                viols = b_judge([dict(x) for x in b.specs], ["/g/a"], "file", obs, root)
                reached = symlink_alias_opens(obs, ["/g/a"], root)
            finally:
                b.dispose()
    served = sum(len(v) for v in obs["got"].values())
    return viols, {"nontrivial": bool(served), "outcome": "B4:%s:%s:%d:%d" % (case["factory"], alias, served, len(viols)),
                   "alias_reached": reached}


def b5_build():
    """One spec set holding file and command specs of several kinds at once (for mixed redaction configurations)."""
    I = imp()
    sf, HC = I["sf"], I["cx"].HostContext
    b = Built()
    b.add("f1", sf.simple_file("/g/a", context=HC), "single", ["/g/a"], "file", reports=True)
    b.add("f2", sf.glob_file("/g/*", context=HC), "multi", ["/g/a", "/g/ab", "/g/b"], "file", multi_output=True)
    b.add("f3", sf.first_file(["/g/ab", "/g/b"], context=HC, kind=I["sf"].RawFileProvider), "first", ["/g/ab", "/g/b"], "file", raw=True)
    b.add("c1", sf.simple_command("/bin/echo a b", context=HC), "single", ["/bin/echo a b"], "command", reports=True)
    b.add("c2", sf.foreach_execute(b.source(["a b", "ab"]), "/bin/echo %s", context=HC), "multi",
          ["/bin/echo a b", "/bin/echo ab"], "command", multi_output=True)
    b.add("c3", sf.container_collect(b.source([("img", "env", "c1", "/g/a")]), context=HC), "multi",
          ["/usr/bin/env exec c1 cat /g/a"], "command", multi_output=True)
    b.add("k1", sf.simple_file("/g/b", context=HC), "single", ["/g/b"], "file", reports=True)
    return b.finish()


B5_FILES = [[], ["/g/a"], ["/g/ab", "/g/a"], ["/bin/echo a b"], [""]]
B5_COMMANDS = [[], ["/bin/echo a"], ["/bin/echo", "/bin/echo ab"], ["/g/a"], ["/usr/bin/env exec c1 cat"]]
B5_COMPONENTS = [[], ["<k1>"], ["<k1>", "<unknown>"], ["<f2>", "<c2>"]]
B5_EXTRA = [{}, {"patterns": ["canned"], "keywords": ["line"]}]


def b5_check(case):
    """A mixed redaction configuration through collect.apply_blacklist: files + commands + components (+ patterns /
    keywords, which must not affect what is collected) at once.  An entry under the wrong key (a path under `commands`,
    a command under `files`) denies nothing.
    case: {"part":"B5","files":[..],"commands":[..],"components":[placeholders <name>/<unknown>],"extra":{..}}"""
    I = imp()
    dr = I["dr"]
    with scratch("c06b") as base:
        T, root = E.build_universe(base, extra_files=B_FILES)
        with E.GlobalState():
            built = b5_build()
            try:
                names = dict((sp["name"], dr.get_name(sp["impl"])) for sp in built.specs)
                comps, disabled = [], set()
                for c in case["components"]:
                    if c == "<unknown>":
                        comps.append(names["k1"] + "_nope")
                    else:
                        comps.append(names[c.strip("<>")])
                        disabled.add(c.strip("<>"))
                cfg = {"files": list(case["files"]), "commands": list(case["commands"]), "components": comps}
                cfg.update(case.get("extra") or {})
                I["collect"].apply_blacklist(cfg)
                watch = [("impl:" + sp["name"], sp["impl"]) for sp in built.specs]
                obs = b_observe(built, root, base, watch=watch)
                live = [dict(sp) for sp in built.specs if sp["name"] not in disabled]
                viols = b_judge(live, {"file": case["files"], "command": case["commands"]}, None, obs, root)
                for sp in built.specs:
                    if sp["name"] in disabled:
                        if ("impl:" + sp["name"]) in obs["entered"]:
                            viols.append(("deny:disabled-component-body-entered", "body of %s never entered" % sp["name"],
                                          {"entered": obs["entered"]}, {}))
                        if obs["got"].get(sp["name"]):
                            viols.append(("deny:denied-item-yields-provider", {"spec": sp["name"], "providers": []},
                                          {"spec": sp["name"], "providers": obs["got"][sp["name"]]}, {"denied_item_kind": "component"}))
                        if sp["name"] not in obs["blacklisted"]:
                            viols.append(("deny:denied-spec-not-reported", {"BLACKLISTED_SPECS contains": sp["name"]},
                                          {"BLACKLISTED_SPECS": obs["blacklisted"]}, {}))
            finally:
                built.dispose()
    nkeys = sum(1 for k in ("files", "commands", "components") if case[k])
    n_items = sum(len(v) for v in obs["got"].values())
    return viols, {"nontrivial": nkeys >= 2, "outcome": "B5:%d:%d:%d" % (nkeys, n_items, len(obs["lines"])),
                   "executed": len(obs["lines"]), "opened": len(obs["opens"])}


def b6_check(case):
    """History on ONE spec set in one process: evaluate, extend the deny list through the public API, evaluate again
    (fresh broker each time) - a verdict cached from an earlier evaluation would surface here.
    case: {"part":"B6","variant","kind","feed","steps": [entry or null, ...]} - step i adds its entry (if any), then evaluates."""
    variant, etype = case["variant"], ("file" if case["variant"] in FILE_VARIANTS else "command")
    viols = []
    outs = []
    with scratch("c06b") as base:
        T, root = E.build_universe(base, extra_files=B_FILES)
        with E.GlobalState():
            built = b_build(variant, case["kind"], False)
            try:
                entries = []
                for i, e in enumerate(case["steps"]):
                    if e is not None:
                        b_feed(case["feed"], etype, [e], [len(entries)])
                        entries.append(e)
                    del imp()["blacklist"].BLACKLISTED_SPECS[:]          # public list, reported per evaluation
                    obs = b_observe(built, root, base)
                    for v in b_judge([dict(x) for x in built.specs], entries, etype, obs, root):
                        viols.append((v[0], v[1], dict(v[2], step=i), v[3]))
                    outs.append(sum(len(v) for v in obs["got"].values()))
            finally:
                built.dispose()
    return viols, {"nontrivial": len(set(outs)) > 1, "outcome": "B6:%s:%s" % (variant, ">".join(str(o) for o in outs))}


def b6_steps(variant):
    """null -> d ; n -> d ; d -> d2 ; d -> null (re-evaluate) for the denying exact entries d, d2 and a non-denying prefix n."""
    items = B_ITEMS[variant]
    d, d2 = items[0], items[1] if len(items) > 1 else items[0] + " x"
    n = d[:-1]
    return [[None, d], [n, d], [d, d2], [d, None], [None, n, d], [d2, d, None]]


# ---- B8 / B9: the same string through both doors - asked as a FILE and as a COMMAND in one process -------------------
#
# The statement quantifies over "every deny list of files, commands and component names": the two lists are separate, an
# entry under `files` says nothing about commands and vice versa.  A path of the host can be collected as a file by one
# spec and run (without arguments) as a command by another one, so one process asks about the SAME string under both
# kinds.  B8 does that through the spec factories (histories of evaluations over one spec set, deny list naming the
# string under none / one / both kinds), B9 through the public matching functions blacklist.allow_file / allow_command
# (every history of queries and add_* calls up to a length).  Reference: two independent sets + the documented rule.

B8_STRINGS = {"quick": ["/bin/echo"], "thorough": ["/bin/echo", "/usr/bin/env"]}   # resolvable binaries (which() precedes the deny check)
B8_ALL_STRINGS = ["/bin/echo", "/usr/bin/env"]                                       # ... that also exist as files inside the root
B8_FILE_FACTORIES = ["simple_file", "glob_file", "first_file", "foreach_collect"]
B8_CMD_FACTORIES = ["simple_command", "command_with_args", "foreach_execute"]       # the kinds that can run a bare path
B8_DENY = ["none", "file", "command", "both"]


def b8_orders(tier):
    """Every sequence over {file, command} that asks under both kinds: length 2 (both orders) and, quick, the two
    alternating ones of length 3; thorough: all six of length 3."""
    out = [["file", "command"], ["command", "file"]]
    for t in itertools.product(["file", "command"], repeat=3):
        if len(set(t)) == 2 and (tier == "thorough" or t[0] == t[2]):
            out.append(list(t))
    return out


def b8_build(s, ffac, cfac, kind):
    I = imp()
    sf, HC = I["sf"], I["cx"].HostContext
    b = Built()
    k, raw = kind_class(kind), kind == "Raw"
    d, n = os.path.dirname(s), os.path.basename(s)
    if ffac == "simple_file":
        b.add("f", sf.simple_file(s, context=HC, kind=k), "single", [s], "file", reports=True, raw=raw)
    elif ffac == "glob_file":
        b.add("f", sf.glob_file(s[:-1] + "*", context=HC, kind=k), "multi", [s], "file", multi_output=True, raw=raw)
    elif ffac == "first_file":
        b.add("f", sf.first_file(["/c06-absent", s], context=HC, kind=k), "first", [s], "file", raw=raw)
    elif ffac == "foreach_collect":
        b.add("f", sf.foreach_collect(b.source([n]), d + "/%s", context=HC, kind=k), "multi", [s], "file", multi_output=True, raw=raw)
    else:
        raise ValueError(ffac)
    if cfac == "simple_command":
        b.add("c", sf.simple_command(s, context=HC), "single", [s], "command", reports=True)
    elif cfac == "command_with_args":
        b.add("c", sf.command_with_args("%s", b.source(s), context=HC), "single", [s], "command")
    elif cfac == "foreach_execute":
        b.add("c", sf.foreach_execute(b.source([s]), "%s", context=HC), "multi", [s], "command", multi_output=True)
    else:
        raise ValueError(cfac)
    return b.finish()


class _View(object):
    """Some specs of a Built, presented to b_observe as a spec set of their own."""

    def __init__(self, built, names):
        self.specs = [s for s in built.specs if s["name"] in names]

    def graph(self):
        dr = imp()["dr"]
        g = {}
        for s in self.specs:
            g.update(dr.get_dependency_graph(s["rp"]))
        return g


def b8_check(case):
    """One spec set with a FILE spec and a COMMAND spec over the same string; the deny list (complete before the first
    evaluation) names the string under `deny` in {none, file, command, both}; the specs are then evaluated one at a time,
    in the given order, in ONE process (fresh broker and context each).  Each evaluation is judged on its own against the
    deny entries OF ITS KIND.
    case: {"part":"B8","string","file_factory","cmd_factory","kind","deny","feed","order": ["file"|"command", ...]}"""
    s, deny = case["string"], case["deny"]
    ents = {"file": [s] if deny in ("file", "both") else [], "command": [s] if deny in ("command", "both") else []}
    viols, outs = [], []
    with scratch("c06b") as base:
        T, root = E.build_universe(base, extra_files=B_FILES + ["root" + x for x in B8_ALL_STRINGS])
        with E.GlobalState():
            built = b8_build(s, case["file_factory"], case["cmd_factory"], case["kind"])
            try:
                for et in ("file", "command"):
                    b_feed(case["feed"], et, ents[et])
                for i, et in enumerate(case["order"]):
                    del imp()["blacklist"].BLACKLISTED_SPECS[:]          # public list, reported per evaluation
                    view = _View(built, ["f"] if et == "file" else ["c"])
                    obs = b_observe(view, root, base)
                    for v in b_judge([dict(x) for x in view.specs], ents, None, obs, root):
                        viols.append((v[0], v[1], dict(v[2], step=i, asked_as=et), dict(v[3], history="same-string-both-kinds")))
                    outs.append("%s%d" % (et[0], sum(len(v) for v in obs["got"].values())))
            finally:
                built.dispose()
    return viols, {"nontrivial": deny in ("file", "command"),       # the string is named under exactly one of the kinds asked
                   "outcome": "B8:%s:%s" % (deny, ">".join(outs))}


B9_STRINGS = ["/bin/echo", "/bin/echo a", "/bin/ech", "/g/a"]
B9_ENTRIES = ["/bin/echo", "/g/a"]          # not prefix-related: the iteration order of a table cannot reach a verdict here


def b9_ops():
    return ([["ask", k, s] for k in ("file", "command") for s in B9_STRINGS] +
            [["add", k, e] for k in ("file", "command") for e in B9_ENTRIES])


def b9_histories(n):
    """Every sequence of <= n operations that ends in a question (a trailing add_* is observed by nobody)."""
    ops = b9_ops()
    for k in range(1, n + 1):
        for t in itertools.product(ops, repeat=k):
            if t[-1][0] == "ask":
                yield [list(o) for o in t]


def b9_check(case):
    """A history of public calls on the deny list in ONE process, from empty tables: ["add", kind, entry] feeds an entry
    (blacklist.add_* or collect.apply_blacklist), ["ask", kind, string] calls blacklist.allow_file / allow_command.
    Reference: two independent sets and the documented rule.  Not decided (statement silent, see module docstring): a
    FILE question whose string continues a file entry with a blank.
    case: {"part":"B9","feed","ops":[...]}"""
    I = imp()
    bl = I["blacklist"]
    model = {"file": [], "command": []}
    viols, answers = [], []
    denied_seen = False
    with E.GlobalState():                               # the tables are empty at import and restored after every case
        for i, (op, k, x) in enumerate(case["ops"]):
            if op == "add":
                b_feed(case["feed"], k, [x])
                if x not in model[k]:
                    model[k].append(x)
                continue
            got = bool((bl.allow_file if k == "file" else bl.allow_command)(x))
            exp = not ref_denied(x, model[k], k)
            answers.append("%s%d" % (k[0], got))
            if k == "file" and any(x[:len(e) + 1] == e + " " for e in model[k]):
                continue                                # entry followed by a blank, asked as a file: not decided
            denied_seen = denied_seen or not exp
            if got != exp:
                viols.append(("deny:denied-string-allowed" if got else "deny:allowed-string-denied",
                              {"step": i, "allow_%s(%r)" % (k, x): exp, "files": list(model["file"]), "commands": list(model["command"])},
                              {"step": i, "allow_%s(%r)" % (k, x): got},
                              {"door": "allow_" + k, "history": "same-string-both-kinds" if any(
                                  o[0] == "ask" and o[2] == x and o[1] != k for o in case["ops"][:i]) else "other"}))
    return viols, {"nontrivial": denied_seen, "outcome": "B9:%d asked:%d denied" % (len(answers), sum(1 for a in answers if a.endswith("0")))}


# ---- B7: the public collection entry point collect.collect(manifest=..., rm_conf=...) ---------------------------------

B7_DENY = [("none", None), ("component", "cmd"), ("component", "file"), ("symbolic-commands", "cmd"), ("symbolic-commands", "file"),
           ("symbolic-files", "cmd"), ("symbolic-files", "file"), ("path", "file"), ("command", "cmd")]
B7_MANIFEST = [("prefix", False), ("exact", False), ("none", False), ("none", True)]     # (how plugins.configs covers the denied component, default_component_enabled)
B7_OUT = {"s_cmd": "data/insights_commands/echo_a_b", "s_file": "data/g/a", "c_cmd": "data/insights_commands/echo_ab",
          "c_file": "data/g/b", "date": "data/insights_commands/date", "hosts": "data/etc/hosts"}
B7_ITEM = {"s_cmd": "/bin/echo a b", "s_file": "/g/a", "c_cmd": "/bin/echo ab", "c_file": "/g/b", "date": "/bin/date", "hosts": "/etc/hosts"}


def b7_check(case):
    """Host collection through insights.collect.collect with a manifest (plugins.default_component_enabled / configs by
    prefix or exact name, client.persist, client.context) and the user's redaction config (rm_conf).  The context named by
    the manifest is a recording HostContext (its `__class__` answers HostContext, so the specs that depend on HostContext -
    the private ones and the real DefaultSpecs.date / .hosts - run under it; nothing is executed).
    case: {"part":"B7","deny": kind, "target": "cmd"|"file"|None, "cover": "prefix"|"exact"|"none", "default_enabled": bool}
    Oracle: the denied spec's command is never run, its file never opened, nothing of it persisted; every spec that the
    manifest enables and the deny list does not name is collected."""
    I = imp()
    dr, sf, HC = I["dr"], I["sf"], I["cx"].HostContext
    import insights.specs.default  # noqa: F401  (symbolic names only resolve against DefaultSpecs)
    Rec = E.recording_context_class()
    deny, tgt, cover, default_enabled = case["deny"], case.get("target"), case["cover"], case["default_enabled"]
    with scratch("c06b") as base:
        T, root = E.build_universe(base, extra_files=B_FILES)
        with E.GlobalState():
            b = Built()
            LOG = []

            def _init(self, root="/", timeout=30, all_files=None):
                Rec.__init__(self, root=root, timeout=timeout, all_files=all_files, log=LOG)
            Ctx = type("Ctx", (Rec,), {"__module__": b.modname, "__init__": _init, "__class__": property(lambda self: HC)})
            b.mod.Ctx = Ctx
            try:
                b.add("s_cmd", sf.simple_command("/bin/echo a b", context=HC), "single", [], "command")
                b.add("s_file", sf.simple_file("/g/a", context=HC), "single", [], "file")
                b.add("c_cmd", sf.simple_command("/bin/echo ab", context=HC), "single", [], "command")
                b.add("c_file", sf.simple_file("/g/b", context=HC), "single", [], "file")
                b.finish()
                full = {"date": ("insights.specs.default.DefaultSpecs.date", "insights.specs.Specs.date"),
                        "hosts": ("insights.specs.default.DefaultSpecs.hosts", "insights.specs.Specs.hosts")}
                for sp in b.specs:
                    full[sp["name"]] = (dr.get_name(sp["impl"]), dr.get_name(sp["rp"]))
                # which spec the deny entry names
                if deny in ("component", "path", "command"):
                    denied = "s_cmd" if tgt == "cmd" else "s_file"
                elif deny.startswith("symbolic"):
                    denied = "date" if tgt == "cmd" else "hosts"
                else:
                    denied = None
                rm_conf = {}
                if deny == "component":
                    rm_conf = {"components": [full[denied][0]]}
                elif deny == "symbolic-commands":
                    rm_conf = {"commands": [denied]}
                elif deny == "symbolic-files":
                    rm_conf = {"files": [denied]}
                elif deny == "path":
                    rm_conf = {"files": ["/g/a"]}
                elif deny == "command":
                    rm_conf = {"commands": ["/bin/echo a"]}
                configs = []
                for name in sorted(full):
                    how = cover if name == denied else "exact"
                    if how == "none":
                        continue
                    for fq in full[name]:
                        configs.append({"name": fq if how == "exact" else fq[:-1], "enabled": True})     # prefix: the name minus its last letter
                manifest = {"version": 0,
                            "client": {"context": {"class": b.modname + ".Ctx", "args": {"root": root, "timeout": 10}},
                                       "blacklist": {"files": [], "commands": [], "patterns": [], "keywords": []},
                                       "persist": [{"name": full[n][1], "enabled": True} for n in sorted(full)],
                                       "run_strategy": {"name": "serial", "args": {}}},
                            "plugins": {"default_component_enabled": default_enabled, "packages": [], "configs": configs}}
                with E.audit(base) as sink:
                    with E.quiet_stderr():
                        out, _errs = I["collect"].collect(manifest=manifest, rm_conf=rm_conf, tmp_path=os.path.join(T, "o1"),
                                                         archive_name="out")
                persisted = set()
                for dp, _dn, fn in os.walk(out):
                    for f in fn:
                        persisted.add(os.path.relpath(os.path.join(dp, f), out))
                lines, _argvs = E.logged_command_lines(LOG)
                opens = set(p for ev, p in sink if ev == "open" and p.startswith(root + "/"))
                blacklisted = list(I["blacklist"].BLACKLISTED_SPECS)
            finally:
                b.dispose()
                reg = I["cx"].ExecutionContextMeta.registry
                if Ctx in reg:
                    reg.remove(Ctx)
    viols = []
    got = {}
    for name in sorted(B7_OUT):
        enabled = default_enabled or not (name == denied and cover == "none")
        is_denied = name == denied
        exp = enabled and not is_denied
        item = B7_ITEM[name]
        ran = item in lines if name in ("s_cmd", "c_cmd", "date") else (root + item) in opens
        kept = B7_OUT[name] in persisted
        got[name] = [ran, kept]
        if is_denied:
            if ran:
                viols.append(("deny:denied-command-executed" if name in ("s_cmd", "date") else "deny:denied-file-opened",
                              "nothing of the deny-listed spec %s is run / opened by collect()" % name,
                              {"executed" if name in ("s_cmd", "date") else "opened": item}, {"entry_point": "collect"}))
            if kept:
                viols.append(("deny:denied-item-persisted", "nothing of the deny-listed spec %s in the archive" % name,
                              {"persisted": B7_OUT[name]}, {"entry_point": "collect"}))
            if deny in ("component", "symbolic-commands", "symbolic-files") and name not in blacklisted:
                viols.append(("deny:denied-spec-not-reported", {"BLACKLISTED_SPECS contains": name},
                              {"BLACKLISTED_SPECS": blacklisted}, {"entry_point": "collect"}))
        elif exp and not (ran and kept):
            viols.append(("deny:allowed-item-not-collected", {"spec": name, "run/opened": True, "persisted": True},
                          {"spec": name, "run/opened": ran, "persisted": kept}, {"entry_point": "collect"}))
    info = {"nontrivial": denied is not None and (default_enabled or cover != "none"),
            "outcome": "B7:%s:%s:%s:%s:%s" % (deny, tgt, cover, default_enabled, "".join("1" if g[1] else "0" for _n, g in sorted(got.items()))),
            "executed": len(lines), "opened": len(opens)}
    return viols, info


def b1_check(case, env=None):
    """case: {"part":"B1","variant","kind","filtered","feed","entries": [0..2 deny entries], "hashes": forced hashes
    (= position of each entry in the deny table's iteration order)}"""
    variant, etype = case["variant"], ("file" if case["variant"] in FILE_VARIANTS else "command")
    with (scratch("c06b") if env is None else _nullctx(env)) as base:
        if env is None:
            T, root = E.build_universe(base, extra_files=B_FILES)
        else:
            base, T, root = env
        with E.GlobalState():
            built = b_build(variant, case["kind"], case["filtered"])
            try:
                entries = list(case["entries"])
                b_feed(case["feed"], etype, entries, case.get("hashes"))
                obs = b_observe(built, root, base)
                specs = [dict(s) for s in built.specs]
                viols = b_judge(specs, entries, etype, obs, root)
                denies = any(ref_denied(it, entries, etype) for s in specs for it in s["items"])
            finally:
                built.dispose()
    n_items = sum(len(v) for v in obs["got"].values())
    info = {"nontrivial": denies, "outcome": "B1:%s:%s:%d:%d:%d" % (variant, "deny" if denies else "pass", len(case["entries"]),
                                                                   n_items, len(obs["lines"])),
            "executed": len(obs["lines"]), "opened": len(obs["opens"])}
    return viols, info


class _nullctx(object):
    def __init__(self, v):
        self.v = v

    def __enter__(self):
        return self.v[0]

    def __exit__(self, *a):
        return False


def b3_check(case):
    """Component names through apply_blacklist({'components': [...]}) on the synthetic spec sets.
    case: {"part":"B3","variant","kind","target": "impl"|"rp"|"unknown"|"impl-via-files"}"""
    I = imp()
    dr = I["dr"]
    variant = case["variant"]
    with scratch("c06b") as base:
        T, root = E.build_universe(base, extra_files=B_FILES)
        with E.GlobalState():
            built = b_build(variant, case["kind"], False)
            try:
                s1 = built.specs[0]
                impl_name, rp_name = dr.get_name(s1["impl"]), dr.get_name(s1["rp"])
                tgt = case["target"]
                if tgt == "impl":
                    cfg = {"components": [impl_name]}
                elif tgt == "rp":
                    cfg = {"components": [rp_name]}
                elif tgt == "unknown":
                    cfg = {"components": [impl_name + "_nope"]}
                elif tgt == "impl-name-as-file-entry":
                    cfg = {"files": [impl_name], "commands": [impl_name]}      # dotted: not symbolic, becomes a literal entry
                else:
                    raise ValueError(tgt)
                I["collect"].apply_blacklist(cfg)
                watch = [("impl:" + s["name"], s["impl"]) for s in built.specs] + [("rp:" + s["name"], s["rp"]) for s in built.specs]
                obs = b_observe(built, root, base, watch=watch)
                viols = []
                for s in built.specs:
                    disabled_impl = tgt == "impl" and s is s1
                    disabled_rp = tgt == "rp" and s is s1
                    got = [it for it, _ in obs["got"].get(s["name"], [])]
                    exp = [] if (disabled_impl or disabled_rp) else ref_expected(s, [])
                    if disabled_impl and ("impl:" + s["name"]) in obs["entered"]:
                        viols.append(("deny:disabled-component-body-entered", "body of %s never entered" % s["name"],
                                      {"entered": obs["entered"]}, {}))
                    if disabled_rp and ("rp:" + s["name"]) in obs["entered"]:
                        viols.append(("deny:disabled-component-body-entered", "body of registry point %s never entered" % s["name"],
                                      {"entered": obs["entered"]}, {}))
                    extra = [it for it in got if it not in exp]
                    if extra:
                        viols.append(("deny:denied-item-yields-provider", {"spec": s["name"], "providers": exp},
                                      {"spec": s["name"], "providers": got}, {"denied_item_kind": "component"}))
                    if [it for it in exp if it not in got]:
                        viols.append(("deny:allowed-item-not-collected", {"spec": s["name"], "providers": exp},
                                      {"spec": s["name"], "providers": got}, {}))
                    if (disabled_impl or disabled_rp):
                        if s["name"] not in obs["blacklisted"]:
                            viols.append(("deny:denied-spec-not-reported", {"BLACKLISTED_SPECS contains": s["name"]},
                                          {"BLACKLISTED_SPECS": obs["blacklisted"]}, {}))
                        mine = set(s["items"])
                        others = set(it for o in built.specs if o is not s for it in o["items"])
                        for line in obs["lines"]:
                            if line in mine and line not in others:
                                viols.append(("deny:denied-command-executed", "nothing of disabled %s executed" % s["name"],
                                              {"executed": line}, {}))
                        for p in obs["opens"]:
                            if p[len(root):] in mine and p[len(root):] not in others:
                                viols.append(("deny:denied-file-opened", "nothing of disabled %s opened" % s["name"],
                                              {"opened": "<root>" + p[len(root):]}, {}))
            finally:
                built.dispose()
    info = {"nontrivial": case["target"] in ("impl", "rp"),
            "outcome": "B3:%s:%s:%d" % (variant, case["target"], sum(len(v) for v in obs["got"].values()))}
    return viols, info


# ---- real DefaultSpecs (symbolic names only resolve against insights.specs.default.DefaultSpecs) ----------

REAL = {
    # name: (kind of factory, items produced in the B universe, etype, seeds)
    "hosts": ("simple_file", ["/etc/hosts"], "file"),
    "sysctl_d_conf_etc": ("glob_file", ["/etc/sysctl.d/a.conf"], "file"),
    "meminfo": ("first_file", ["/meminfo"], "file"),
    "httpd_limits": ("foreach_collect", ["/proc/123/limits"], "file"),
    "date": ("simple_command", ["/bin/date"], "command"),
    "ls_la": ("command_with_args", ["/bin/ls -la /etc"], "command"),
    "md5chk_files": ("foreach_execute", ["/usr/bin/md5sum /etc/hosts"], "command"),
    "container_dotnet_version": ("container_execute", ["/usr/bin/env exec c1 /usr/bin/dotnet --version"], "command"),
    "container_redhat_release": ("container_collect", ["/usr/bin/env exec c1 cat /etc/redhat-release"], "command"),
}
REAL_TARGETS = ["none", "symbolic-in-files", "symbolic-in-commands", "component", "exact-item", "item-prefix-no-space",
                "unknown-symbolic", "other-spec-symbolic"]


class RealSpecs(object):
    def __init__(self, name):
        import insights.specs.default as default
        from insights.specs import Specs
        from insights.specs.datasources import ls, md5chk
        from insights.specs.datasources.container import running_rhel_containers
        self.name = name
        self.rp = getattr(Specs, name)
        self.impl = getattr(default.DefaultSpecs, name)
        kindf, items, etype = REAL[name]
        self.specs = [{"name": name, "rp": self.rp, "impl": self.impl, "items": list(items), "etype": etype,
                       "sem": "first" if kindf == "first_file" else ("single" if kindf.startswith(("simple", "command")) else "multi"),
                       "reports": kindf in ("simple_file", "simple_command")}]
        self.seeds = {default.DefaultSpecs.httpd_pid: ["123"], ls.list_with_la: "/etc", md5chk.files: ["/etc/hosts"],
                      running_rhel_containers: [("img", "env", "c1")]}

    def graph(self):
        return imp()["dr"].get_dependency_graph(self.rp)


def b2_check(case):
    """case: {"part":"B2","spec": name, "target": one of REAL_TARGETS}"""
    I = imp()
    name, tgt = case["spec"], case["target"]
    with scratch("c06b") as base:
        T, root = E.build_universe(base, extra_files=B_FILES)
        with E.GlobalState():
            rs = RealSpecs(name)
            s = rs.specs[0]
            item = s["items"][0]
            full = "insights.specs.default.DefaultSpecs." + name
            other = "hosts" if name != "hosts" else "date"
            disabled = False
            entries = []
            if tgt == "none":
                cfg = {}
            elif tgt == "symbolic-in-files":
                cfg, disabled = {"files": [name]}, True
            elif tgt == "symbolic-in-commands":
                cfg, disabled = {"commands": [name]}, True
            elif tgt == "component":
                cfg, disabled = {"components": [full]}, True
            elif tgt == "exact-item":
                cfg, entries = {"files" if s["etype"] == "file" else "commands": [item]}, [item]
            elif tgt == "item-prefix-no-space":
                cfg, entries = {"files" if s["etype"] == "file" else "commands": [item[:-1]]}, [item[:-1]]
            elif tgt == "unknown-symbolic":
                cfg = {"files": [name + "_nope"], "commands": [name + "_nope"]}
            elif tgt == "other-spec-symbolic":
                cfg = {"files": [other]}
            else:
                raise ValueError(tgt)
            I["collect"].apply_blacklist(cfg)
            obs = b_observe(rs, root, base, seeds=rs.seeds, watch=[("impl:" + name, rs.impl)])
            if disabled:
                viols = []
                got = [it for it, _ in obs["got"].get(name, [])]
                if ("impl:" + name) in obs["entered"]:
                    viols.append(("deny:disabled-component-body-entered", "body of DefaultSpecs.%s never entered" % name,
                                  {"entered": obs["entered"]}, {}))
                if got:
                    viols.append(("deny:denied-item-yields-provider", {"spec": name, "providers": []},
                                  {"spec": name, "providers": got}, {"denied_item_kind": "symbolic"}))
                if name not in obs["blacklisted"]:
                    viols.append(("deny:denied-spec-not-reported", {"BLACKLISTED_SPECS contains": name},
                                  {"BLACKLISTED_SPECS": obs["blacklisted"]}, {}))
                # other (enabled) components of the graph may run their own commands; only this spec's items count
                mine = set(s["items"])
                ran = [l for l in obs["lines"] if l in mine] + [" ".join(a) for a in obs["execs"] if " ".join(a) in mine]
                opened = [p[len(root):] for p in obs["opens"] if p[len(root):] in mine]
                if ran:
                    viols.append(("deny:denied-command-executed", "nothing executed for the disabled spec %s" % name,
                                  {"executed": ran}, {}))
                if opened:
                    viols.append(("deny:denied-file-opened", "nothing opened for the disabled spec %s" % name,
                                  {"opened": opened}, {}))
            else:
                viols = b_judge(rs.specs, entries, s["etype"], obs, root)
    info = {"nontrivial": disabled or tgt == "exact-item",
            "outcome": "B2:%s:%s:%d:%d" % (name, tgt, sum(len(v) for v in obs["got"].values()), len(obs["lines"]))}
    return viols, info


def run_B(unit, tier, res):
    sub = unit["sub"]
    if sub == "B1":
        ents = b_entries(unit["variant"])
        sets = [([], [])] + [([e], [0]) for e in ents]
        if BOUNDS[tier]["B_simultaneous_entries"].startswith("all pairs"):
            pairs = [list(c) for c in itertools.combinations(ents, 2)]
        else:
            pairs = b_prefix_pairs(unit["variant"])
        if tier == "quick" and unit["filtered"]:
            pairs = []                      # quick: several simultaneous entries only in the unfiltered units
        for p in pairs:                     # both iteration orders of the deny table
            sets.append((p, [0, 1]))
            sets.append((p, [1, 0]))
        triples = b_prefix_triples(unit["variant"], tier) if not (tier == "quick" and unit["filtered"]) else []
        for t in triples:                   # all six iteration orders
            for perm in itertools.permutations(range(3)):
                sets.append((t, list(perm)))
        with scratch("c06b") as base:       # the deny-list cases never modify the universe: one per unit
            T, root = E.build_universe(base, extra_files=B_FILES)
            for entries, hashes in sets:
                case = {"part": "B1", "variant": unit["variant"], "kind": unit["kind"], "filtered": unit["filtered"],
                        "feed": unit["feed"], "entries": entries, "hashes": hashes}
                _record(res, case, lambda c: b1_check(c, (base, T, root)))
        res.stat("B_entry_pairs_both_orders", len(pairs))
        res.stat("B_entry_triples_all_orders", len(triples))
    elif sub == "B3":
        for variant in FILE_VARIANTS + CMD_VARIANTS:
            for kind in (KINDS if variant in FILE_VARIANTS else ["Text"]):
                case = {"part": "B3", "variant": variant, "kind": kind, "target": unit["target"]}
                _record(res, case, b3_check)
    elif sub == "B7":
        for deny, tgt in B7_DENY:
            for cover, de in B7_MANIFEST:
                _record(res, {"part": "B7", "deny": deny, "target": tgt, "cover": cover, "default_enabled": de}, b7_check)
    elif sub == "B5":
        for fi in B5_FILES:
            for co in B5_COMMANDS:
                for cm in B5_COMPONENTS:
                    for ex in B5_EXTRA:
                        if ex and not (fi and co):
                            continue
                        _record(res, {"part": "B5", "files": fi, "commands": co, "components": cm, "extra": ex}, b5_check)
    elif sub == "B6":
        for variant in FILE_VARIANTS + CMD_VARIANTS:
            for kind in (KINDS if variant in FILE_VARIANTS else ["Text"]):
                for feed in ("direct", "apply_blacklist"):
                    for steps in b6_steps(variant):
                        _record(res, {"part": "B6", "variant": variant, "kind": kind, "feed": feed, "steps": steps}, b6_check)
    elif sub == "B8":
        for s in B8_STRINGS[tier]:
            for kind in KINDS:
                for deny in B8_DENY:
                    for feed in ("direct", "apply_blacklist"):
                        for order in b8_orders(tier):
                            _record(res, {"part": "B8", "string": s, "file_factory": unit["file_factory"],
                                          "cmd_factory": unit["cmd_factory"], "kind": kind, "deny": deny, "feed": feed,
                                          "order": order}, b8_check)
    elif sub == "B9":
        n = BOUNDS[tier]["B9_history_length"]
        first = unit["first"]
        for ops in b9_histories(n):
            if first is None or ops[0] == first:
                _record(res, {"part": "B9", "feed": unit["feed"], "ops": ops}, b9_check)
    elif sub == "B4":
        for f in FILE_VARIANTS:
            for alias in ALIASES:
                for kind in KINDS:
                    _record(res, {"part": "B4", "factory": f, "alias": alias, "kind": kind}, b4_check)
    elif sub == "B2":
        for tgt in REAL_TARGETS:
            case = {"part": "B2", "spec": unit["spec"], "target": tgt}
            _record(res, case, b2_check)
    else:
        raise ValueError(sub)


def _record(res, case, fn):
    viols, info = fn(case)
    res.case(nontrivial=info["nontrivial"], outcome=info["outcome"], sample=case if info["nontrivial"] else None)
    for k in ("executed", "opened"):
        if info.get(k):
            res.stat("B_" + k, info[k])
    if info.get("alias_reached"):
        res.stat("denied_file_reached_via_symlink_alias", 1)
    for v in viols:
        clause, exp, obs = v[0], v[1], v[2]
        res.violation(clause, case, exp, obs, v[3] if len(v) > 3 else {})


# =============================================================================================
# Part C - persistence
# =============================================================================================

SAVE_AS = [None, "", "/", "x", "dir/", "ABS"]       # ABS: absolute-looking path that points into the scratch area (never a real /x)
# save_as forms for the families that hand save_as to the serializer VERBATIM (DatasourceProvider, directly constructed
# providers): the bare "/" is left out on purpose - "/" + basename is a short absolute name (/f, /d, /echo_a), and a
# defective serializer (e.g. the reverted archive-location fix) would write it into the machine's real root directory.
# One leading slash is covered by the scratch-embedded absolute forms (ABS...).
SAVE_AS_VERBATIM = [None, "", "x", "dir/", "ABS"]
CIDS = ["c1", "..", "../..", "a/b", "CABS", "CABS2", "CABS3", "CABS2DOT"]      # container ids; CABS: an absolute path inside the scratch area
C_FILE_FACTORIES = ["simple_file", "first_file", "glob_file", "foreach_collect"]
CMD_TOKENS = ["/", "..", " ", ";", "$", "a", "L300"]
LABEL_SEG = {"quick": ["..", "d", "f"], "thorough": ["..", "d", "f", "root"]}
C_LAYOUTS = {
    "quick": [[], [["l", ".."]], [["l", "{T}/root/f"]]],
    "thorough": [[], [["l", ".."]], [["l", "{T}/root/f"]], [["l", "d"]], [["d/l", ".."]], [["l", "{T}/root"]],
                 [["l", "../root"]], [["l", ".."], ["d/l", "../l"]]],
}


def expand_tokens(toks):
    return "".join("x" * 300 if t == "L300" else t for t in toks)


ABS_FORMS = ["ABS0", "ABS", "ABS2", "ABS3", "ABS2DIR", "ABS2DOT", "ABS3DOT"]
SA_BOUNDARY = [".", "./", "..", "../", "../x", "./x", "x/..", "dir//", "dir/.", "dir/./"]


def abs_form(tag, T, word):
    """Leading-slash family.  The absolute part always lies inside the scratch area (never a short name like //x: under a
    defective implementation that one would be written to the machine's real /x).
      <W>0 no leading slash, <W> one, <W>2 two (POSIX normpath keeps exactly two), <W>3 three;
      ...DIR directory style (trailing slash); ...DOT with a 'd/..' inside the absolute part."""
    k = {"0": 0, "": 1, "2": 2, "3": 3}[tag[len(word):len(word) + 1] if tag[len(word):len(word) + 1] in "023" and tag[len(word):] else ""]
    rest = tag[len(word):].lstrip("023")
    body = os.path.join(T, "abs" + tag.lower()[len(word):], "x").lstrip("/")
    if rest == "DIR":
        body = os.path.join(T, "abs" + tag.lower()[len(word):]).lstrip("/") + "/"
    elif rest == "DOT":
        body = os.path.join(T, "abs" + tag.lower()[len(word):], "d", "..", "y").lstrip("/")
    return "/" * k + body


def save_as_value(sa, T):
    if sa is not None and sa.startswith("ABS"):
        return abs_form(sa, T, "ABS")
    return sa


def label_value(p, T):
    if p.startswith("LABS"):
        return abs_form(p, T, "LABS")
    return p


def cid_value(cid, T):
    if cid is None:
        return "c1"
    if cid.startswith("CABS"):
        return abs_form(cid, T, "CABS").rstrip("/")
    return cid


def c_add_spec(b, name, case, T):
    """Declares one spec (registry point `name`) producing the provider(s) described by `case`."""
    I = imp()
    sf, HC = I["sf"], I["cx"].HostContext
    fam = case["family"]
    sa = save_as_value(case.get("save_as"), T)
    if fam == "file":
        k = kind_class(case["kind"])
        raw = case["kind"] == "Raw"
        f, p = case["factory"], case["path"]
        if f == "simple_file":
            b.add(name, sf.simple_file(p, save_as=sa, context=HC, kind=k), "single", [], "file", raw=raw)
        elif f == "first_file":
            b.add(name, sf.first_file(["c06-absent", p], save_as=sa, context=HC, kind=k), "first", [], "file", raw=raw)
        elif f == "glob_file":
            b.add(name, sf.glob_file(p, save_as=sa, context=HC, kind=k), "multi", [], "file", multi_output=True, raw=raw)
        elif f == "foreach_collect":
            b.add(name, sf.foreach_collect(b.source([p]), "%s", save_as=sa, context=HC, kind=k), "multi", [], "file",
                  multi_output=True, raw=raw)
        else:
            raise ValueError(f)
    elif fam == "command":
        cmd = "/bin/echo " + expand_tokens(case["tokens"])
        f = case["factory"]
        if f == "simple_command":
            b.add(name, sf.simple_command(cmd, save_as=sa, context=HC), "single", [], "command")
        elif f == "command_with_args":
            b.add(name, sf.command_with_args("/bin/echo %s", b.source(expand_tokens(case["tokens"])), save_as=sa, context=HC),
                  "single", [], "command")
        elif f == "foreach_execute":
            b.add(name, sf.foreach_execute(b.source([expand_tokens(case["tokens"]), "plain"]), "/bin/echo %s", context=HC),
                  "multi", [], "command", multi_output=True)
        elif f == "container_execute":
            b.add(name, sf.container_execute(b.source([("img", "env", cid_value(case.get("cid"), T))]), cmd.replace("%", "%%"), context=HC),
                  "multi", [], "command", multi_output=True)
        else:
            raise ValueError(f)
    elif fam == "container_file":
        b.add(name, sf.container_collect(b.source([("img", "env", cid_value(case.get("cid"), T), "/" + case["path"])]), context=HC),
              "multi", [], "command", multi_output=True)
    elif fam == "direct":
        # providers constructed directly by a custom datasource: save_as reaches the serializer verbatim (the factories strip it)
        kind, path = case["kind"], case["path"]
        TP, RP, CP = sf.TextFileProvider, sf.RawFileProvider, sf.CommandOutputProvider

        def c06_direct(broker):
            ctx = broker[HC]
            if kind == "Text":
                return TP(path, root=ctx.root, save_as=sa, ctx=ctx)
            if kind == "Raw":
                return RP(path, root=ctx.root, save_as=sa, ctx=ctx)
            return CP("/bin/echo " + path, ctx, save_as=sa)
        c06_direct.__module__ = b.modname
        c06_direct.__qualname__ = c06_direct.__name__ = "c06_direct_" + name
        ds = I["plugins"].datasource(HC)(c06_direct)
        b.add(name, ds, "single", [], "file", raw=(kind == "Raw"))
    elif fam == "datasource_provider":
        path = label_value(case["path"], T)
        DP = sf.DatasourceProvider

        def c06_label(broker):
            return DP(content=["labelled content"], relative_path=path, save_as=sa, ctx=broker[HC])
        c06_label.__module__ = b.modname
        c06_label.__qualname__ = c06_label.__name__ = "c06_label_" + name
        ds = I["plugins"].datasource(HC)(c06_label)
        b.add(name, ds, "single", [], "file")
    else:
        raise ValueError(fam)


def c_build(case, T):
    """Spec set of a persistence case: one spec, or two specs `sa`, `sb` persisted one after the other (part C2)."""
    b = Built()
    if case["part"] == "C2":
        c_add_spec(b, "sa", case["a"], T)
        c_add_spec(b, "sb", case["b"], T)
    else:
        c_add_spec(b, "s", case, T)
    return b.finish()


def c_features(case, created_outside):
    if case["part"] == "C2":
        return {"persist_escape_via": "two_step_history", "provider_family": "file"}
    fam = case["family"]
    sa = case.get("save_as")
    via = "other"
    path = case.get("path")
    if path is not None and sa is None and ".." in path.split("/"):
        via = "dotdot_in_relative_path"
    elif sa is not None and sa.startswith("ABS"):
        via = "absolute_save_as"
    elif path is not None and path.startswith("LABS") or str(case.get("cid", "")).startswith("CABS"):
        via = "absolute_label_or_id"
    return {"persist_escape_via": via, "provider_family": fam}


def c_check_on(base, T, root, case):
    """One persistence case (one spec, or a two-step history into ONE archive) on an existing universe; leaves the
    universe as it found it.  Observed through a content-aware snapshot of the whole scratch area before / after:
      * every created file lies beneath the output directory,
      * nothing that existed outside the output directory was modified, replaced or removed,
      * nothing persisted beneath the output directory is (or passes through) a link that resolves outside of it -
        "created beneath the output directory" means the content lives there."""
    I = imp()
    dr = I["dr"]
    out = os.path.join(T, "o1", "o2", "out")
    os.makedirs(out)
    before = E.snapshot_full(base)
    viols = []
    mid = None
    with E.GlobalState():
        built = c_build(case, T)
        try:
            Rec = E.recording_context_class()
            ctx = Rec(root=root)
            broker = dr.Broker()
            broker[I["cx"].HostContext] = ctx
            h = I["Hydration"](out, ctx)
            broker.add_observer(h.make_persister(set(s["rp"] for s in built.specs)))
            nprovs = []
            for i, sp in enumerate(built.specs):        # one dr.run per spec, in order, same broker, same archive
                with E.quiet_stderr():
                    dr.run(dr.get_dependency_graph(sp["rp"]), broker)
                v = broker.get(sp["rp"])
                nprovs.append(len(v) if isinstance(v, list) else (1 if v is not None else 0))
                if i == 0 and len(built.specs) > 1:
                    mid = E.snapshot_full(base)
        finally:
            built.dispose()
    after = E.snapshot_full(base)
    nprov = nprovs[0]
    created = sorted(set(after) - set(before))
    out_rel = os.path.relpath(out, base)
    realout = os.path.realpath(out)
    par = os.path.dirname(T)

    def inside_out(rel):
        return rel == out_rel or rel.startswith(out_rel + os.sep)

    def disp(rel):
        return os.path.relpath(os.path.join(base, rel), par)

    files_out = dirs_out = 0
    outside = []
    for rel in created:
        if after[rel][0] == "dir":
            if not inside_out(rel):
                dirs_out += 1
            continue
        if not inside_out(rel):
            files_out += 1
            outside.append(disp(rel))
    data_files = [r for r in created if after[r][0] != "dir" and r.startswith(os.path.join(out_rel, "data") + os.sep)]
    if outside:
        viols.append(("persist:file-created-outside-output-dir", "every created file beneath T/o1/o2/out",
                      {"created_outside": outside}, c_features(case, outside)))
    if dirs_out:
        # title of the property: "writes only to the archive" - a directory made outside the output directory is a write
        viols.append(("persist:directory-created-outside-output-dir", "every created directory beneath T/o1/o2/out",
                      {"directories": [disp(r) for r in created if after[r][0] == "dir" and not inside_out(r)][:4]},
                      c_features(case, None)))
    # existing entries outside the output directory: untouched
    touched = []
    for rel in sorted(before):
        if inside_out(rel) or before[rel][0] == "dir" and rel in after and after[rel][0] == "dir":
            continue
        if rel not in after:
            touched.append({"path": disp(rel), "was": before[rel][0], "now": "removed"})
        elif after[rel] != before[rel]:
            touched.append({"path": disp(rel), "was": before[rel][0], "now": after[rel][0],
                            "content_now": (after[rel][1][:60].decode("utf-8", "replace") if isinstance(after[rel][1], bytes)
                                            else after[rel][1])})
    if touched:
        viols.append(("persist:existing-file-outside-output-dir-modified",
                      "nothing outside T/o1/o2/out is modified by persisting", {"modified_outside": touched[:4]},
                      c_features(case, touched)))
    # persisted entries: the content lives beneath the output directory
    leaking = []
    for rel in sorted(after):
        if not inside_out(rel) or rel == out_rel:
            continue
        kind, payload = after[rel]
        if kind == "link" or kind == "file":
            rp = real(os.path.join(base, rel))
            if not E.beneath(rp, realout):
                leaking.append({"entry": disp(rel), "kind": kind, "link_target": show(payload, T) if kind == "link" else None,
                                "resolves_to": show(rp, T)})
    if leaking:
        viols.append(("persist:persisted-entry-resolves-outside-output-dir",
                      "every persisted entry resolves beneath T/o1/o2/out", {"entries": leaking[:4]},
                      c_features(case, leaking)))
    # restore the universe for the next case of the unit
    if touched:
        shutil.rmtree(os.path.join(base, E.HERMETIC[0]), ignore_errors=True)
        E.build_universe(base, case["links"])
    else:
        for rel in sorted(created, key=lambda r: -len(r)):
            p = os.path.join(base, rel)
            if os.path.islink(p) or not os.path.isdir(p):
                try:
                    os.remove(p)
                except OSError:
                    pass
            else:
                shutil.rmtree(p, ignore_errors=True)
        shutil.rmtree(os.path.join(T, "o1"), ignore_errors=True)
    meta_prefix = os.path.join(out_rel, "meta_data") + os.sep
    content_files = [r for r in created if after[r][0] != "dir" and not r.startswith(meta_prefix)]
    info = {"providers": nprov, "data_files": len(data_files), "dirs_out": dirs_out}
    if case["part"] == "C2":
        # measured: both steps produced providers and the second one created no new content file (it wrote where the first one had written)
        step2_new = [r for r in after if r not in mid and after[r][0] != "dir" and not r.startswith(meta_prefix)]
        collided = bool(nprovs[0] and nprovs[1] and not step2_new)
        info["nontrivial"] = collided
        info["outcome"] = "C2:%s>%s:%s:%s:%s" % (case["a"].get("kind", case["a"]["family"]), case["b"].get("kind", case["b"]["family"]),
                                              case["a"].get("save_as"),
                                              "collide" if collided else "apart", "V" if viols else "-")
    else:
        info["nontrivial"] = bool(content_files)
        info["outcome"] = "C:%s:%s:%s:p%d:in%d:out%d" % (case["family"], case.get("factory", "-"), case.get("save_as"),
                                                      min(nprov, 2), min(len(data_files), 2), min(files_out, 2))
    return viols, info


# two-step histories: layouts with absolute link targets (plus a relative link and no link as controls)
C2_LAYOUTS = {
    "quick": [[["l", "{T}/root/f"]], [["d/l", "{T}/root/f"]], [["l", "{T}/root"]], [["l", "f"]]],
    "thorough": [[["l", "{T}/root/f"]], [["d/l", "{T}/root/f"]], [["l", "{T}/root"]], [["l", "{T}/root/d"]], [["l", "{B}"]],
                 [["l", "{T}/root/f"], ["d/l", "{T}/root/d/f"]], [["l", "f"]], []],
}
C2_SAVE_AS = [None, "x", "dir/"]


def c2_cases(root, tier, links):
    """Every ordered pair (spec A, spec B) of file specs (factory x kind) persisted one after the other into one
    archive over the same path with the same save_as; plus, for different paths, the colliding renames
    (save_as x / dir/) with simple_file."""
    n = BOUNDS[tier]["C2_path_segments"]
    paths = [p for p in all_paths(SEG, 1, n) if os.path.isfile(os.path.join(root, p))]
    fk = [(f, k) for f in C_FILE_FACTORIES for k in KINDS]
    for p in paths:
        for sa in (C2_SAVE_AS if tier == "thorough" else C2_SAVE_AS[:2]):     # quick: none and `x`
            for fa, ka in fk:
                for fb, kb in fk:
                    yield {"part": "C2", "links": links,
                           "a": {"family": "file", "factory": fa, "kind": ka, "save_as": sa, "path": p},
                           "b": {"family": "file", "factory": fb, "kind": kb, "save_as": sa, "path": p}}
    # a command / a labelled datasource and a file spec meeting at one archive location (the mangled command name)
    MEET = "insights_commands/echo_a"
    cmd = {"family": "command", "factory": "simple_command", "tokens": ["a"], "save_as": None}
    dsp = {"family": "datasource_provider", "path": MEET, "save_as": None}
    others = [cmd, dsp]
    for x, y in ((cmd, dsp), (dsp, cmd)):
        yield {"part": "C2", "links": links, "a": dict(x), "b": dict(y)}
    for p in paths:
        for f in ("simple_file", "first_file"):
            for k in KINDS:
                fs = {"family": "file", "factory": f, "kind": k, "save_as": MEET, "path": p}
                for o in others:
                    yield {"part": "C2", "links": links, "a": dict(fs), "b": dict(o)}
                    yield {"part": "C2", "links": links, "a": dict(o), "b": dict(fs)}
    for pa in paths:
        for pb in paths:
            if pa == pb:
                continue
            for sa in ("x", "dir/"):
                for ka in KINDS:
                    for kb in KINDS:
                        yield {"part": "C2", "links": links,
                               "a": {"family": "file", "factory": "simple_file", "kind": ka, "save_as": sa, "path": pa},
                               "b": {"family": "file", "factory": "simple_file", "kind": kb, "save_as": sa, "path": pb}}


def c_cases_file(root, tier, links):
    n = BOUNDS[tier]["C_file_path_segments"]
    paths = [p for p in all_paths(SEG, 1, n) if os.path.isfile(os.path.join(root, p))]
    for p in paths:
        for f in C_FILE_FACTORIES:
            for kind in KINDS:
                sas = SAVE_AS + ["ABS2"]
                if len(p.split("/")) == 1:          # the whole leading-slash / boundary family for the one-segment paths
                    sas = sas + [x for x in ABS_FORMS + SA_BOUNDARY if x not in sas]
                for sa in sas:
                    yield {"part": "C", "links": links, "family": "file", "factory": f, "kind": kind, "save_as": sa, "path": p}


def c_cases_other(tier, family):
    if family == "command":
        n = BOUNDS[tier]["C_cmd_tokens"]
        for toks in enumx.strings(CMD_TOKENS, n, 1):
            if all(t == " " for t in toks):
                continue            # "/bin/echo " followed by blanks only: same command as shorter ones after shlex
            sas = SAVE_AS if (tier == "thorough" or len(toks) <= 2) else [None]      # quick: save_as forms for <= 2 tokens
            if len(sas) > 1:
                sas = sas + ["ABS2"] + (SA_BOUNDARY + ABS_FORMS if len(toks) == 1 else [])
                sas = [x for i, x in enumerate(sas) if x not in sas[:i]]
            for f in ("simple_command", "command_with_args", "foreach_execute", "container_execute"):
                for sa in (sas if f in ("simple_command", "command_with_args") else [None]):
                    yield {"part": "C", "links": [], "family": "command", "factory": f, "save_as": sa, "tokens": list(toks)}
            if len(toks) == 1:
                for cid in CIDS[1:]:
                    yield {"part": "C", "links": [], "family": "command", "factory": "container_execute", "save_as": None,
                           "tokens": list(toks), "cid": cid}
    elif family == "direct":
        allf = SAVE_AS_VERBATIM + ABS_FORMS + SA_BOUNDARY
        forms = [x for i, x in enumerate(allf) if x not in allf[:i]]
        for kind in ("Text", "Raw", "Command"):
            for p in (("f", "d/f", "d/../f") if kind != "Command" else ("a", "a/b")):
                for sa in forms:
                    yield {"part": "C", "links": [], "family": "direct", "kind": kind, "save_as": sa, "path": p}
    else:
        n = BOUNDS[tier]["C_label_segments"]
        if family == "datasource_provider":
            # leading-slash family and boundary spellings of save_as for the short labels; absolute labels
            for p in ("", "f", "d/f", "../f"):
                for sa in ABS_FORMS + SA_BOUNDARY:
                    if sa != "ABS":
                        yield {"part": "C", "links": [], "family": family, "save_as": sa, "path": p}
            for p in ["LABS0", "LABS", "LABS2", "LABS3", "LABS2DIR", "LABS2DOT", "LABS3DOT"]:
                for sa in (None, "dir/", "ABS2DIR"):
                    yield {"part": "C", "links": [], "family": family, "save_as": sa, "path": p}
        for p in all_paths(LABEL_SEG[tier], 0, n):         # from the empty label / the path "/"
            for sa in (SAVE_AS_VERBATIM if family == "datasource_provider" else [None]):
                yield {"part": "C", "links": [], "family": family, "save_as": sa, "path": p}
            if family == "container_file" and len(p.split("/")) <= 3:
                for cid in CIDS[1:]:
                    yield {"part": "C", "links": [], "family": family, "save_as": None, "path": p, "cid": cid}


def run_C(unit, tier, res):
    with scratch("c06c") as base:
        T, root = E.build_universe(base, unit["links"])
        if unit["family"] == "file":
            gen = c_cases_file(root, tier, unit["links"])
        elif unit["family"] == "history":
            gen = c2_cases(root, tier, unit["links"])
        else:
            gen = c_cases_other(tier, unit["family"])
        for case in enumx.shard(gen, unit["shard"], unit["of"]):
            viols, info = c_check_on(base, T, root, case)
            res.case(nontrivial=info["nontrivial"], outcome=info["outcome"])
            if info["dirs_out"]:
                res.stat("C_directories_created_outside_out", info["dirs_out"])
            res.stat("C_files_persisted", info["data_files"])
            for clause, exp, obs, feats in viols:
                res.violation(clause, case, exp, obs, feats)


def replay_C(case):
    with scratch("c06c") as base:
        T, root = E.build_universe(base, case["links"])
        viols, _ = c_check_on(base, T, root, case)
    return viols


# =============================================================================================
# Part M - mangle_command
# =============================================================================================

M_TOKENS = ["/", "..", " ", ";", "$", "a", "-", "L300"]


def m_check(case):
    mangle = imp()["mangle"]
    raw = expand_tokens(case["tokens"])
    cmd = (case.get("prefix") or "") + raw
    viols = []
    for hv in (False, True):
        m = mangle(cmd, has_variables=hv)
        bad = None
        if os.sep in m or "\0" in m:
            bad = "contains a path separator"
        elif m in ("..", "."):
            bad = "is a directory reference"
        elif os.path.basename(m) != m:
            bad = "is not its own basename"
        else:
            dst = os.path.normpath(os.path.join("/D/insights_commands", m))
            if m and os.path.dirname(dst) != "/D/insights_commands":
                bad = "leaves insights_commands when joined"
        if bad:
            viols.append(("persist:mangled-command-not-a-single-component", "a single path component",
                          {"mangled": m[:80], "why": bad, "has_variables": hv}, {}))
    return viols, {"nontrivial": ("/" in raw or ".." in raw)}


def run_M(unit, tier, res):
    n = BOUNDS[tier]["M_tokens"]
    for toks in enumx.shard(enumx.strings(M_TOKENS, n, 0), unit["shard"], unit["of"]):
        for prefix in ("", "/bin/echo ", "/usr/sbin/"):
            case = {"part": "M", "tokens": list(toks), "prefix": prefix}
            viols, info = m_check(case)
            res.evals += 1
            if info["nontrivial"]:
                res.nontrivial += 1
            for clause, exp, obs, feats in viols:
                res.violation(clause, case, exp, obs, feats)
    res.outcomes.add("M:checked")


# =============================================================================================
# driver protocol
# =============================================================================================

def units(tier, seed):
    us = []
    for links in layouts(tier):
        forms = ["plain"]
        at_l = not links or (len(links) == 1 and links[0][0] == "l")
        if len(links) <= 1 and (tier == "thorough" or at_l):
            forms.append("slash")           # trailing-slash root: layouts with <= 1 link (quick: link at root/l only)
        if at_l and (tier == "thorough" or not links or links[0][1] in QUICK_SYMLINK_ROOT_TARGETS):
            forms.append("symlink")         # root given as a symlink (T/rootlink -> root)
        if not links and tier == "thorough":
            forms.append("symlink-slash")
        for form in forms:
            us.append({"part": "A", "links": links, "root_form": form})
    for variant in FILE_VARIANTS + CMD_VARIANTS:
        for kind in (KINDS if variant in FILE_VARIANTS else ["Text"]):
            for filtered in ((False, True) if kind == "Text" else (False,)):
                for feed in ("direct", "apply_blacklist"):
                    us.append({"part": "B", "sub": "B1", "variant": variant, "kind": kind, "filtered": filtered, "feed": feed})
    for tgt in ("impl", "rp", "unknown", "impl-name-as-file-entry"):
        us.append({"part": "B", "sub": "B3", "target": tgt})
    for name in REAL:
        us.append({"part": "B", "sub": "B2", "spec": name})
    us.append({"part": "B", "sub": "B4"})
    us.append({"part": "B", "sub": "B5"})
    us.append({"part": "B", "sub": "B7"})
    us.append({"part": "B", "sub": "B6"})
    for ff in B8_FILE_FACTORIES:
        for cf in B8_CMD_FACTORIES:
            us.append({"part": "B", "sub": "B8", "file_factory": ff, "cmd_factory": cf})
    for feed in ("direct", "apply_blacklist"):
        for first in (b9_ops() if tier == "thorough" else [None]):      # quick: one unit per feeding route
            us.append({"part": "B", "sub": "B9", "feed": feed, "first": first})
    for links in C_LAYOUTS[tier]:
        for i in range(4):
            us.append({"part": "C", "family": "file", "links": links, "shard": i, "of": 4})
    for links in C2_LAYOUTS[tier]:
        for i in range(4):
            us.append({"part": "C", "family": "history", "links": links, "shard": i, "of": 4})
    for fam, n in (("command", 8), ("container_file", 2), ("datasource_provider", 4), ("direct", 1)):
        for i in range(n):
            us.append({"part": "C", "family": fam, "links": [], "shard": i, "of": n})
    for i in range(8):
        us.append({"part": "M", "shard": i, "of": 8})
    # the real default specs are imported once, before the workers are forked
    import insights.specs.default  # noqa: F401
    imp()
    return us


def unit_weight(u):
    return {"A": 5, "C": 3, "B": 2}.get(u["part"], 1)


def run_unit(unit, tier):
    res = Result()
    part = unit["part"]
    if part == "A":
        run_A(unit, tier, res)
    elif part == "B":
        run_B(unit, tier, res)
    elif part == "C":
        run_C(unit, tier, res)
    elif part == "M":
        run_M(unit, tier, res)
    else:
        raise ValueError(part)
    return res


def replay(case):
    part = case.get("part")
    if part == "A":
        viols = replay_A(case)
    elif part == "B1":
        viols, _ = b1_check(case)
    elif part == "B2":
        viols, _ = b2_check(case)
    elif part == "B3":
        viols, _ = b3_check(case)
    elif part == "B4":
        viols, _ = b4_check(case)
    elif part == "B5":
        viols, _ = b5_check(case)
    elif part == "B7":
        viols, _ = b7_check(case)
    elif part == "B6":
        viols, _ = b6_check(case)
    elif part == "B8":
        viols, _ = b8_check(case)
    elif part == "B9":
        viols, _ = b9_check(case)
    elif part in ("C", "C2"):
        viols = replay_C(case)
    elif part == "M":
        viols, _ = m_check(case)
    else:
        raise ValueError(part)
    return [{"clause": v[0], "case": case, "expected": v[1], "observed": v[2], "features": v[3] if len(v) > 3 else {}}
            for v in viols]


TECHNIQUE = ("bounded exhaustive enumeration of directory layouts x relative paths x factories (containment), of deny "
             "entries x datasource kinds (deny list) and of provider families x destinations (persistence), each case "
             "executed against the real spec factories / dr.run / Hydration under a recording context, an audit hook and "
             "a file-system diff")
LEVEL_TEXT = ("Stateless exploration of the real implementation over a finite, fully enumerated input space: every "
              "relative path up to the bound over an alphabet with one symbol per escape route, every symlink layout of a "
              "universe with a name-prefix sibling, every prefix of every produced command line as deny entry, the same "
              "string asked as a file and as a command in every order within one process (spec factories and the public "
              "matching functions, every call history up to a length), every provider family and save_as form. Containment is decided component-wise on real paths and cross-checked "
              "against the content actually served; the deny list against an independent statement of the documented "
              "matching rule; persistence by diffing the file system. The claim is 'no counterexample within the bound'.")
LEVEL_NOTE = ("Trusted: os.path.realpath/commonpath, the audit events `open` and `subprocess.Popen`, the recording context "
              "(commands are never executed, output is canned). Not covered: real command execution and timeouts, races "
              "between validation and use (TOCTOU), os.stat-level access to denied files, deny-list aliases (a denied file "
              "reached under another spelling is only counted), directory listings outside the root (counted only).")
