"""C07 - filtered specs keep exactly the lines that match a registered filter.

Part A (histories, explicit-state, explored TO CLOSURE): breadth-first search over the real
``filters.add_filter`` / ``filters.get_filters`` on a fixed component graph built with the real
SpecSet / RegistryPoint / simple_file / parser / combiner machinery.  The state is the pair of
module-level tables (FILTERS, _CACHE) restricted to the fixture's components; the oracle is a
cache-free reference model (plain dict of dicts) evaluated in every reachable state.

Part B (content, exhaustive inputs): every content of <= L lines over a sharp line alphabet, crossed
with budgeted filter sets, pushed through the four code paths that apply filters (post-filter on
load, allow-list in the cleaner, host path with the REAL ``grep -F`` followed by write(), and the
test helper ``apply_filters``) and judged by a declarative oracle (sub-sequence, kept lines match,
last match kept, drops only after a budget is used up).  Plus: without filters every factory
refuses to collect a filterable spec on a host.

The truncated read of "extra-huge" files (TextFileProvider.load reads only the last MAX_CONTENT_SIZE bytes and discards
the first, broken, line) is reached by CONFIGURING the public module constant ``spec_factory.MAX_CONTENT_SIZE`` to a few
bytes for one group of cases (restored afterwards).  That is configuration of a documented constant - the repository's own
test does the same -, not a patch of the code under test; the content clauses are then judged against the lines that survive
the documented truncation.

Redaction x filtering: on a host the same cleaning pass also applies the customer's exclude patterns (file-content
redaction), which REMOVE lines.  The statement does not mention redaction; the cleaner documents it as a must-be-done step
that comes before the filter (module docstring, the numbered steps of clean_content, "Clean (Redact, Filter, and Obfuscate)"
in ContentProvider._clean_content).  A group of cases therefore hands exclude patterns (plain and regex form) to the public
Cleaner constructor and judges the cleaned content - cleaner allow-list and the file written by a host collection - by the
unchanged clauses against the lines the redaction leaves: a removed line is not part of the content, cannot be "the last
line matching a filter" and uses no match budget up (the budget clause has always counted KEPT lines only).

``insights.tests`` is never imported (it monkey-patches filters.add_filter).
"""
import collections
import contextlib
import itertools
import os
import shutil

from mc.result import Result
from mc import enumx

# filtering must be on: the gate is read once at import of insights.core.filters
os.environ.pop("INSIGHTS_FILTERS_ENABLED", None)

ID = "C07"
LEVEL = "model_checking"
RULE = ("A: explicit-state BFS to closure over (FILTERS,_CACHE) of a fixed graph (filterable point S with "
        "implementations I1,I2, non-filterable point S2, raw point R, parsers P(S), P2(S,S2), P3(S2), combiner C(P)); "
        "events add_filter(t,p,m) for t in {S,I1,I2,P,C,P2} x p x m, add on non-filterable/raw targets, "
        "get_filters(t,with_matches) for t in {S,I1,I2}; and, separately, of a nested graph (filterable point S3 implemented "
        "by FO=first_of([N1,N2]) with N1,N2 outside any SpecSet, parser P3F(S3); adds on S3,FO,P3F, refused adds on N1,N2, "
        "look-ups on S3,FO,N1), and of a graph with two filterable points SA<-IA, SB<-IB under one parser PAB(SA,SB) and a "
        "combiner CAB(PAB) (adds on SA,SB,PAB,CAB,IA, look-ups on SA,SB,IA,IB), and of six generated shapes (three "
        "implementations; two-level first_of nesting; combiner over two single-spec parsers; combiner on a point and a parser, a "
        "point without implementation; parser over three points one of them non-filterable; helper datasource on top of a "
        "point, parser on an implementation) in which every node is an add target and every datasource a look-up target; small "
        "closures of main/multi/nested additionally take, in every state, typed arguments (list, set, explicit default), "
        "documented refusals (empty string, empty string inside a list / set, wrong type, max_match 0 / negative / None / bool / "
        "str / float), an empty list / set and a dumps()->loads() round trip; a case is one (state,event) transition executed "
        "on the real functions; non-trivial when a look-up cache entry exists in the source state (the interleaving matters). "
        "B: every content of <= L lines over {'',a,b,ab,xa,-a,a.*,[a],c} x every listed budgeted filter set x each "
        "code path (post-filter on load, cleaner allow-list, apply_filters; both of the first two also executed twice "
        "under one registration for <= 3 lines; host collection with real grep for <= 2/3 lines); a case is one "
        "(path,content,filter descriptor), started from freshly registered tables; further descriptors on <= 3 lines: both "
        "registration orders x registration places for overlapping pairs, triples in all 6 orders with mixed budgets, one "
        "string registered twice with different budgets, a superstring filter, set-typed arguments under every iteration order "
        "(forced hashes); stream() before and after load; two writes and two collections per host case; glob_file / "
        "foreach_collect / foreach_execute content per file; shell/grep/format glue characters; white space (filters with leading / trailing blank or tab, lines with "
        "trailing blanks / tabs, blank-only lines, a CRLF line; kept lines compared with the original lines exactly); "
        "filtering switched off; the customer's exclude patterns (file-content redaction, plain and regex form, handed to the "
        "Cleaner constructor) x budgeted filter sets x every content of <= 4/5 lines over {a,b,ab,ax,bx,abx,x,c,''} through the "
        "cleaner's allow-list (once; twice on one cleaner and with no_redact for <= 3 lines) and <= 2/3 lines through host collections with real "
        "grep and write(): the cleaned content is judged by the same clauses against the lines the redaction leaves (a removed "
        "line uses no budget up), non-trivial when the redaction removed a line containing a filter and something was kept; "
        "the truncated read of extra-huge files (MAX_CONTENT_SIZE "
        "configured to every value from 0 to size+1 bytes for contents of <= 3 lines over {a,b,\u00e9a,c\u00e9,-a,c,''}); non-trivial when the real output kept at "
        "least one line and dropped at least one line")
ASSUMPTIONS = [
    "the module-level dicts / lists / sets of insights/core/filters.py (found by type, not by name) are the only state "
    "add_filter/get_filters read or write besides the dependency graph, which is fixed during the search; memoisation "
    "hidden elsewhere (e.g. functools caches) would not be snapshotted; ENABLED is forced on except in the 'disabled' part",
    "canonical states ignore dict insertion order: every Part A observation (set / dict equality, raised or not) is "
    "order-insensitive; restored states are validated by re-executing each state's shortest history from empty tables",
    "budgets: repeated registrations of one string on one component combine by max (add_filter's max_matchs); across "
    "components the statement does not say which budget wins, so a looked-up budget must merely be one of the "
    "per-component budgets registered for that string on a contributing component (weaker reading)",
    "bounded: no counterexample with <= L lines over the stated line alphabet and the listed filter sets; host path "
    "uses the grep found through SAFE_ENV's PATH on this machine",
]

SIGMA = ["", "a", "b", "ab", "xa", "-a", "a.*", "[a]", "c"]
FILTER_STRINGS = ["a", "b", "-a", ".*", "[a]"]
DEFAULT_BUDGET = 10000      # filters.MAX_MATCH; re-checked against the module when the fixture is built
BOUNDS = {
    "quick": {"history": "closure for patterns {a,b} x budgets {1,default} and for pattern {a} x budgets {1,2,default}",
              "content_note": "the 6 unbudgeted pairs of non-overlapping filters are judged on <= 3 lines only",
              "history_nested": "closure for patterns {a,b} x budgets {1,2,default} on the first_of graph",
              "history_shapes": "6 generated shapes, closure for {a} x {1,default}",
              "history_extras": "typed / refused arguments and dumps-loads round trip in every state of the {a} x {default} "
                                "closures of main, multi, nested",
              "truncated_read": "every byte limit 0..size+1 x contents <= 3 lines x 5 filter sets (archive), limits size-1/size+1 x "
                                "<= 2 lines x 2 sets (host)",
              "extra_filter_descriptors": 140, "extra_descriptor_max_lines": 3, "multi_file_host_max_lines": 2,
              "history_multi": "two-points-under-one-parser graph: closure for {a,b} x {default} (adds on SA,SB,PAB,CAB,IA) "
                               "and for {a,b} x {1,default} (adds on SA,SB,PAB,CAB)",
              "content_max_lines": 4, "filter_sets": 46, "repeated_load_max_lines": 3, "host_max_lines": 2,
              "host_filter_sets": 16,
              "redaction": "7 budgeted filter sets x 4 exclude-pattern configurations (plain / regex, one sharing a string with a "
                           "filter) x contents <= 4 lines over a 9-symbol alphabet through the cleaner (once; twice and with "
                           "no_redact <= 3 lines); 8 of the 28 combinations x contents <= 2 lines through host collection",
              "redact_max_lines": 4, "redact_host_max_lines": 2},
    "thorough": {"history": "closure for patterns {a,b} x budgets {1,2,default}",
                 "history_nested": "closure for patterns {a,b} x budgets {1,2,default} on the first_of graph",
                 "history_shapes": "6 generated shapes, closures for {a} x {1,2,default} and {a,b} x {default}",
                 "history_extras": "typed / refused arguments and dumps-loads round trip in every state of the {a} x "
                                   "{default} closures of main, multi, nested",
                 "truncated_read": "every byte limit 0..size+1 x contents <= 3 lines x 5 filter sets (archive), limits size-1/size+1 "
                                   "x <= 3 lines x 2 sets (host)",
                 "extra_filter_descriptors": 234, "extra_descriptor_max_lines": 3, "multi_file_host_max_lines": 3,
                 "history_multi": "two-points-under-one-parser graph: closure for {a,b} x {1,2,default} (adds on "
                                  "SA,SB,PAB,CAB,IA)",
                 "content_max_lines": 5, "filter_sets": 153, "repeated_load_max_lines": 3, "host_max_lines": 3,
                 "host_filter_sets": 22,
                 "redaction": "7 budgeted filter sets x 4 exclude-pattern configurations x contents <= 5 lines through the cleaner "
                              "(once; twice and with no_redact <= 3 lines); all 28 combinations x contents <= 3 lines through host collection",
                 "redact_max_lines": 5, "redact_host_max_lines": 3},
}
CAP_S = {"quick": 300, "thorough": 3000}

CL_LOOKUP = "history:lookup-equals-union-of-registrations"
CL_RAISE = "history:add-on-inapplicable-target-raises"
CL_ADD_OK = "history:add-on-filterable-target-accepted"
CL_INVALID = "history:invalid-argument-raises"
CL_ROUNDTRIP = "history:dumps-loads-round-trip"
CL_SUBSEQ = "content:order-preserving-subsequence"
CL_KEPT = "content:kept-line-contains-a-filter"
CL_LAST = "content:last-match-kept"
CL_BUDGET = "content:dropped-before-budget-used"
CL_DROP = "content:matching-line-dropped"
CL_EXC = "content:raises"
CL_NOFILTER = "nofilter:not-collected-on-host"
CL_COLLECT = "history:collected-after-later-registration"

# ---------------------------------------------------------------------------------------------
# The fixture graph, declared as plain data (the reference model only ever reads THIS description;
# _build() checks that the real dr registries agree with it).
# ---------------------------------------------------------------------------------------------
# Two disjoint graphs share the description (names are unique):
#  "main":   S <- I1, I2 ; S2 <- IS2 ; R <- IR ; P(S), C(P), P2(S,S2), P3(S2)
#  "nested": filterable point S3 implemented by FO = first_of([N1, N2]); N1, N2 are plain simple_file datasources
#            that are NOT attributes of any SpecSet (the shape of many specs in insights/specs/default.py); P3F(S3).
#            Content providers look filters up on exactly such nested members (ds=self of the inner simple_file).
#  "multi":  two filterable points SA <- IA, SB <- IB under ONE parser PAB(SA, SB) and a combiner CAB(PAB): a registration
#            through PAB / CAB lands on both points at once; what is registered on one point alone must never show up
#            on the other.
KIND = {"S": "ds", "I1": "ds", "I2": "ds", "S2": "ds", "IS2": "ds", "R": "ds", "IR": "ds",
        "P": "parser", "C": "combiner", "P2": "parser", "P3": "parser",
        "S3": "ds", "FO": "ds", "N1": "ds", "N2": "ds", "P3F": "parser",
        "SA": "ds", "SB": "ds", "IA": "ds", "IB": "ds", "PAB": "parser", "CAB": "combiner"}
DEPS = {"S": ["I1", "I2"], "S2": ["IS2"], "R": ["IR"], "I1": [], "I2": [], "IS2": [], "IR": [],
        "P": ["S"], "C": ["P"], "P2": ["S", "S2"], "P3": ["S2"],
        "S3": ["FO"], "FO": ["N1", "N2"], "N1": [], "N2": [], "P3F": ["S3"],
        "SA": ["IA"], "SB": ["IB"], "IA": [], "IB": [], "PAB": ["SA", "SB"], "CAB": ["PAB"]}
# FILTERABLE: the datasource accepts registrations (its delegate is flagged filterable).  A nested member never
# receives its registry point's flag, so add_filter on it raises ("Filters aren't applicable to ...").
FILTERABLE = {"S": True, "I1": True, "I2": True, "S2": False, "IS2": False, "R": False, "IR": False,
              "S3": True, "FO": True, "N1": False, "N2": False,
              "SA": True, "SB": True, "IA": True, "IB": True}
RAW = {"R": True, "IR": True}
# MARKED_OFF: the component itself says `filterable = False` (a non-filterable registry point and whatever implements
# it): no filter is ever in force for it and none flows through it.  Nested members carry no mark: the filters of
# everything they feed are in force for them (statement: "registered ... on the spec it implements, or through any
# parser or combiner depending on it").
MARKED_OFF = set(["S2", "IS2", "R", "IR"])
FIXTURES = {
    "main": {"comps": ["S", "I1", "I2", "S2", "IS2", "R", "IR", "P", "C", "P2", "P3"],
             "add": ["S", "I1", "I2", "P", "C", "P2"],
             "bad": ["S2", "IS2", "R", "IR", "P3"],    # non-filterable point / impl, raw point / impl, parser of S2 only
             "get": ["S", "I1", "I2"]},
    "nested": {"comps": ["S3", "FO", "N1", "N2", "P3F"],
               "add": ["S3", "FO", "P3F"],
               "bad": ["N1", "N2"],                     # unflagged nested members: documented refusal
               "get": ["S3", "FO", "N1"]},
    "multi": {"comps": ["SA", "SB", "IA", "IB", "PAB", "CAB"],
              "add": ["SA", "SB", "PAB", "CAB", "IA"],
              "bad": [],
              "get": ["SA", "SB", "IA", "IB"]},
}
# Further small shapes, one structural deviation each, declared as typed nodes and BUILT GENERICALLY (see
# _build_shape).  Node types: pt = registry point (flag), impl = implementation of a point (optionally a first_of over
# members), fo = a first_of that is not itself an implementation, n = plain simple_file outside any SpecSet,
# ds = a function datasource built on top of other components, parser / combiner.  In these shapes EVERY node is an
# add target (the reference decides which registrations are refused) and every datasource is a look-up target.
SHAPES = {
    # three implementations of one point
    "impl3": {"S": ("pt", True), "I1": ("impl", "S"), "I2": ("impl", "S"), "I3": ("impl", "S"), "P": ("parser", ["S"])},
    # nesting two levels deep: S <- FO = first_of([FI = first_of([N1, N2]), N3])
    "deep": {"S": ("pt", True), "FO": ("impl", "S", ["FI", "N3"]), "FI": ("fo", ["N1", "N2"]), "N1": ("n",), "N2": ("n",),
             "N3": ("n",), "P": ("parser", ["S"])},
    # a combiner over two single-spec parsers of two filterable points
    "comb2": {"SA": ("pt", True), "SB": ("pt", True), "IA": ("impl", "SA"), "IB": ("impl", "SB"),
              "PA": ("parser", ["SA"]), "PB": ("parser", ["SB"]), "CX": ("combiner", ["PA", "PB"])},
    # a combiner sitting on a point directly AND on a parser of another point; SB has no implementation at all
    "combmix": {"SA": ("pt", True), "SB": ("pt", True), "IA": ("impl", "SA"), "PB": ("parser", ["SB"]),
                "CM": ("combiner", ["SA", "PB"])},
    # one parser over three points, one of them non-filterable
    "three": {"SA": ("pt", True), "SB": ("pt", True), "SC": ("pt", False), "IA": ("impl", "SA"), "IC": ("impl", "SC"),
              "PX": ("parser", ["SA", "SB", "SC"])},
    # a helper datasource built on top of the registry point, with its own parser; a parser directly on an implementation
    "dson": {"S": ("pt", True), "I": ("impl", "S"), "D": ("ds", ["S"]), "PD": ("parser", ["D"]), "PI": ("parser", ["I"]),
             "P": ("parser", ["S"])},
}


def _declare_shapes():
    for sh in sorted(SHAPES):
        nodes = SHAPES[sh]
        full = dict((n, "%s.%s" % (sh, n)) for n in nodes)
        for n in sorted(nodes):
            spec = nodes[n]
            t = spec[0]
            fn = full[n]
            KIND[fn] = t if t in ("parser", "combiner") else "ds"
            if t == "pt":
                DEPS[fn] = [full[m] for m in sorted(nodes) if nodes[m][0] == "impl" and nodes[m][1] == n]
                FILTERABLE[fn] = spec[1]
                if not spec[1]:
                    MARKED_OFF.add(fn)
            elif t == "impl":
                DEPS[fn] = [full[m] for m in (spec[2] if len(spec) > 2 else [])]
                FILTERABLE[fn] = nodes[spec[1]][1]
                if not nodes[spec[1]][1]:
                    MARKED_OFF.add(fn)
            elif t in ("fo", "ds", "parser", "combiner"):
                DEPS[fn] = [full[m] for m in spec[1]]
                if t in ("fo", "ds"):
                    FILTERABLE[fn] = False
            else:
                DEPS[fn] = []
                FILTERABLE[fn] = False
        comps = [full[n] for n in sorted(nodes)]
        FIXTURES[sh] = {"comps": comps, "add": comps, "bad": [], "get": [c for c in comps if KIND[c] == "ds"]}


_declare_shapes()
PART_A = [n for g in sorted(FIXTURES) for n in FIXTURES[g]["comps"]]

NF_FACTORIES = ["simple_file", "glob_file", "first_file", "simple_command", "command_with_args",
                "foreach_execute", "foreach_collect"]


def _dependents(t):
    return [u for u in DEPS if t in DEPS[u]]


class NotApplicable(Exception):
    pass


class Invalid(Exception):
    """An argument add_filter documents as refused (empty filter string, wrong pattern type, max_match that is not a
    positive int)."""


def _decode_arg(x):
    """JSON descriptor -> Python argument: {"set": [...]} / {"tuple": [...]} / {"arg": literal} / plain value."""
    if isinstance(x, dict):
        if "set" in x:
            return set(x["set"])
        if "tuple" in x:
            return tuple(x["tuple"])
        return x["arg"]
    return x


def _model_patterns(p):
    """The strings a pattern argument registers ("A string, list of strings, or set of strings"); Invalid otherwise."""
    p = _decode_arg(p)
    if isinstance(p, str):
        ps = [p]
    elif isinstance(p, (list, set)):
        ps = sorted(p, key=repr)
    else:
        raise Invalid("Filter patterns must be of type string, list, or set")
    if any(not isinstance(x, str) or not x for x in ps):
        raise Invalid("Filter patterns must not be empty")
    return ps


def _model_budget(m):
    """None = argument omitted (MAX_MATCH). Otherwise "It can only be a positive integer" (bool is not an int here)."""
    if m is None:
        return DEFAULT_BUDGET
    m = _decode_arg(m)
    if type(m) is not int or m <= 0:
        raise Invalid("max_match can only be a positive integer")
    return m


# What "the filter set in force" means per look-up target (get_filters read against the statement):
#  * implementation I of a filterable point S: F[I] u F[S].  get_filters walks I's *dependents*; the registry point
#    depends on its implementations, so S is visited; S's own dependents are parsers, which are not datasources, so
#    the walk ends there.  "registered ... through any parser or combiner depending on it" reaches I via F[S]:
#    add_filter on a parser/combiner lands on the FIRST datasources of each dependency path (for P, C, P2: S, never
#    I1/I2) and only on the filterable ones (P2(S,S2) lands on S alone).
#  * the registry point S itself: F[S] (plus filterable datasources built on top of S - none here).  A registration
#    made directly on an implementation does not flow up (documented: "a filter added to DefaultSpecs.ps_auxww will
#    only apply to DefaultSpecs.ps_auxww").
#  * documented refusals: raw datasources, non-filterable datasources, parsers none of whose datasources is
#    filterable -> add_filter raises and changes nothing.
# Budgets: one string registered several times on ONE component keeps the largest budget.  When the same string
# sits on the implementation and on the point with different budgets, get_filters(with_matches=True) reports the
# point's (dict.update in visiting order); the statement is silent, so either registered budget is accepted.
class RefModel(object):
    """Cache-free reference: F[component] = {filter string: budget}.  Nothing else."""

    def __init__(self, key=()):
        self.F = dict((c, dict(items)) for c, items in key)

    def key(self):
        return tuple((c, tuple(sorted(self.F[c].items()))) for c in sorted(self.F))

    @staticmethod
    def landing(t):
        """Where a registration on t lands (documented in add_filter's docstring and the module text)."""
        if KIND[t] == "ds":
            if RAW.get(t) or not FILTERABLE.get(t):
                raise NotApplicable(t)
            return [t]

        def first_ds(c):
            if KIND[c] == "ds":
                return set([c])
            out = set()
            for d in DEPS[c]:
                out |= first_ds(d)
            return out
        ds = first_ds(t)
        if not ds:
            return []
        land = sorted(d for d in ds if FILTERABLE.get(d))
        if not land:
            raise NotApplicable(t)
        return land

    def add(self, t, p, m):
        """-> "ok", or "either" for an EMPTY list / set (nothing to register; the code does not say whether that is an
        error).  Raises Invalid / NotApplicable for the documented refusals; the model is unchanged then."""
        ps = _model_patterns(p)
        m = _model_budget(m)
        land = self.landing(t)
        if not ps:
            return "either"
        for c in land:
            tab = self.F.setdefault(c, {})
            for x in ps:
                tab[x] = max(tab.get(x, 0), m)
        return "ok"

    @staticmethod
    def chain(t):
        """t and every datasource that t feeds (an implementation feeds its registry point, a nested member feeds
        the implementation), except through / into components marked non-filterable."""
        out, todo = [], [t]
        while todo:
            c = todo.pop()
            if c in out or KIND[c] != "ds" or c in MARKED_OFF:
                continue
            out.append(c)
            todo.extend(_dependents(c))
        return out

    def keys(self, t):
        out = set()
        for c in self.chain(t):
            out |= set(self.F.get(c, ()))
        return out

    def budget_options(self, t, p):
        return sorted(set(self.F[c][p] for c in self.chain(t) if p in self.F.get(c, ())))

    def judge_lookup(self, t, wm, obs):
        """None when the observed answer is acceptable, else the expected description."""
        want = sorted(self.keys(t))
        if not wm:
            return None if obs == want else want
        exp = dict((p, self.budget_options(t, p)) for p in want)
        if not isinstance(obs, dict) or sorted(obs) != want:
            return {"keys": want, "budget_one_of": exp}
        for p in want:
            if obs[p] not in exp[p]:
                return {"keys": want, "budget_one_of": exp}
        return None


def literal_keys(events, t):
    """Second formulation, transcribed from the statement: the strings registered so far on t itself, on the spec
    it implements, or through any parser/combiner depending on it = on any component from which t is reachable."""
    def reach(u, seen=None):
        seen = set() if seen is None else seen
        if u in seen:
            return seen
        seen.add(u)
        for d in DEPS[u]:
            reach(d, seen)
        return seen
    out = set()
    for ev in events:
        if ev[0] == "add" and t in reach(ev[1]):
            try:
                if not RefModel.landing(ev[1]):
                    continue
                _model_budget(ev[3])
                out.update(_model_patterns(ev[2]))
            except (Invalid, NotApplicable):
                pass
    return set() if t in MARKED_OFF else out


# ---------------------------------------------------------------------------------------------
# Fixture: real components, built once per process
# ---------------------------------------------------------------------------------------------
class _Fx(object):
    pass


_FX = None


def _fx():
    global _FX
    if _FX is None or _FX.pid != os.getpid():
        _FX = _build()
    return _FX


def _build():
    import logging
    logging.disable(logging.CRITICAL)
    from insights.core import dr, filters, Parser
    from insights.core.context import HostContext, HostArchiveContext
    from insights.core.plugins import parser, combiner, datasource, is_datasource
    from insights.core.spec_factory import (RegistryPoint, SpecSet, RawFileProvider, simple_file, simple_command,
                                            glob_file, first_file, command_with_args, foreach_execute,
                                            foreach_collect)
    if not filters.ENABLED:
        filters.ENABLED = True          # the property is about filtering being in force
    if filters.MAX_MATCH != DEFAULT_BUDGET:
        raise RuntimeError("filters.MAX_MATCH changed: %r" % (filters.MAX_MATCH,))
    fx = _Fx()
    fx.pid = os.getpid()
    fx.root = "/dev/shm/verif-%d-c07root" % fx.pid        # created per unit / case, removed afterwards
    root = fx.root

    @datasource(HostContext)
    def c07_arg(broker):
        return os.path.join(root, "in_cmd")

    @datasource(HostContext)
    def c07_names(broker):
        return ["in_file", "in_file2"]

    @datasource(HostContext)
    def c07_paths(broker):
        return [os.path.join(root, "in_cmd"), os.path.join(root, "in_cmd2")]

    class C07Specs(SpecSet):
        s = RegistryPoint(filterable=True)
        s2 = RegistryPoint()
        r = RegistryPoint(raw=True)
        cmd = RegistryPoint(filterable=True)
        nf_simple_file = RegistryPoint(filterable=True)
        nf_glob_file = RegistryPoint(filterable=True, multi_output=True)
        nf_first_file = RegistryPoint(filterable=True)
        nf_simple_command = RegistryPoint(filterable=True)
        nf_command_with_args = RegistryPoint(filterable=True)
        nf_foreach_execute = RegistryPoint(filterable=True, multi_output=True)
        nf_foreach_collect = RegistryPoint(filterable=True, multi_output=True)

    class C07Host(C07Specs):
        s = simple_file("/in_file", context=HostContext)
        s2 = simple_file("/in_file", context=HostContext)
        r = simple_file("/in_file", context=HostContext, kind=RawFileProvider)
        cmd = simple_command("/bin/cat %s/in_cmd" % root, context=HostContext)
        nf_simple_file = simple_file("/in_file", context=HostContext)
        nf_glob_file = glob_file("/in_f*", context=HostContext)
        nf_first_file = first_file(["/absent", "/in_file"], context=HostContext)
        nf_simple_command = simple_command("/bin/cat %s/in_cmd" % root, context=HostContext)
        nf_command_with_args = command_with_args("/bin/cat %s", c07_arg, context=HostContext)
        nf_foreach_execute = foreach_execute(c07_paths, "/bin/cat %s", context=HostContext)
        nf_foreach_collect = foreach_collect(c07_names, "/%s", context=HostContext)

    class C07Archive(C07Specs):
        s = simple_file("/in_file", context=HostArchiveContext)
        nf_glob_file = glob_file("/in_f*", context=HostArchiveContext)

    @parser(C07Specs.s)
    class C07P(Parser):
        def parse_content(self, content):
            self.lines = content

    @combiner(C07P)
    def c07_c(p):
        return p

    @parser(C07Specs.s, C07Specs.s2)
    class C07P2(Parser):
        def parse_content(self, content):
            self.lines = content

    @parser(C07Specs.s2)
    class C07P3(Parser):
        def parse_content(self, content):
            self.lines = content

    @parser(C07Specs.cmd)
    class C07PCmd(Parser):
        def parse_content(self, content):
            self.lines = content

    from insights.core.spec_factory import first_of
    c07_n1 = simple_file("/absent", context=HostContext)
    c07_n2 = simple_file("/in_file", context=HostContext)

    class C07NSpecs(SpecSet):
        s3 = RegistryPoint(filterable=True)

    class C07NHost(C07NSpecs):
        s3 = first_of([c07_n1, c07_n2])

    @parser(C07NSpecs.s3)
    class C07P3F(Parser):
        def parse_content(self, content):
            self.lines = content

    class C07MSpecs(SpecSet):
        sa = RegistryPoint(filterable=True)
        sb = RegistryPoint(filterable=True)

    class C07MHost(C07MSpecs):
        sa = simple_file("/in_file", context=HostContext)
        sb = simple_file("/in_file", context=HostContext)

    @parser(C07MSpecs.sa, C07MSpecs.sb)
    class C07PAB(Parser):
        def parse_content(self, content):
            self.lines = content

    @combiner(C07PAB)
    def c07_cab(p):
        return p

    fx.comp = {"S": C07Specs.s, "I1": C07Host.s, "I2": C07Archive.s, "S2": C07Specs.s2, "IS2": C07Host.s2,
               "R": C07Specs.r, "IR": C07Host.r, "P": C07P, "C": c07_c, "P2": C07P2, "P3": C07P3,
               "CMD": C07Specs.cmd, "ICMD": C07Host.cmd, "PCMD": C07PCmd,
               "S3": C07NSpecs.s3, "FO": C07NHost.s3, "N1": c07_n1, "N2": c07_n2, "P3F": C07P3F,
               "SA": C07MSpecs.sa, "SB": C07MSpecs.sb, "IA": C07MHost.sa, "IB": C07MHost.sb, "PAB": C07PAB, "CAB": c07_cab}
    for f in NF_FACTORIES:
        fx.comp["NF_" + f] = getattr(C07Specs, "nf_" + f)
        fx.comp["INF_" + f] = getattr(C07Host, "nf_" + f)
    fx.comp["ANF_glob_file"] = C07Archive.nf_glob_file
    shape_classes = []
    for sh in sorted(SHAPES):
        shape_classes += _build_shape(fx, sh, SHAPES[sh])
    # dumps() names components, loads() resolves the names by import: make the SpecSet classes importable
    for cls in [C07Specs, C07Host, C07Archive, C07NSpecs, C07NHost, C07MSpecs, C07MHost] + shape_classes:
        globals()[cls.__name__] = cls
    for c in fx.comp.values():
        dr.COMPONENT_IMPORT_CACHE.pop(dr.get_name(c), None)
    fx.all = list(fx.comp.values())
    fx.allset = set(fx.all)
    fx.parts = dict((g, [fx.comp[n] for n in FIXTURES[g]["comps"]]) for g in FIXTURES)
    fx.idxs = dict((g, dict((c, i) for i, c in enumerate(fx.parts[g]))) for g in FIXTURES)
    # the declared description must be the real graph
    inv = dict((id(v), k) for k, v in fx.comp.items())
    for n in PART_A:
        c = fx.comp[n]
        real = sorted(inv[id(d)] for d in dr.get_dependencies(c) if id(d) in inv)
        if real != sorted(DEPS[n]):
            raise RuntimeError("fixture graph differs from its description at %s: %r" % (n, real))
        if is_datasource(c) != (KIND[n] == "ds"):
            raise RuntimeError("fixture kind differs at %s" % n)
        if KIND[n] == "ds":
            dl = dr.get_delegate(c)
            if bool(dl.filterable) != bool(FILTERABLE.get(n)) or bool(dl.raw) != bool(RAW.get(n)):
                raise RuntimeError("fixture flags differ at %s" % n)
            if (getattr(c, "filterable", None) is False) != (n in MARKED_OFF):
                raise RuntimeError("fixture non-filterable mark differs at %s" % n)
    fx.filters = filters
    if any(e for _, e in _snapshot_tables(fx)):
        raise RuntimeError("fresh fixture component already present in the filter tables")
    fx.dr = dr
    fx.HostContext = HostContext
    fx.HostArchiveContext = HostArchiveContext
    fx.triples = {"archive": {"point": fx.comp["S"], "impl": fx.comp["I2"], "parser": fx.comp["P"]},
                  "host-file": {"point": fx.comp["S"], "impl": fx.comp["I1"], "parser": fx.comp["P"]},
                  "host-cmd": {"point": fx.comp["CMD"], "impl": fx.comp["ICMD"], "parser": fx.comp["PCMD"]},
                  "archive-glob": {"point": fx.comp["NF_glob_file"], "impl": fx.comp["ANF_glob_file"],
                                   "parser": fx.comp["NF_glob_file"]}}
    for pth, fac in HOST_MULTI.items():
        fx.triples[pth] = {"point": fx.comp["NF_" + fac], "impl": fx.comp["INF_" + fac], "parser": fx.comp["NF_" + fac]}
    return fx


# ---------------------------------------------------------------------------------------------
# The state of insights.core.filters, handled GENERICALLY: every module-level dict / list / set of the module is a
# state container, found by type and never by name (today: the public FILTERS and one private look-up memo), so a
# refactoring that renames, re-keys, splits or re-binds the memo does not break the check.  An entry belongs to the
# fixture when a fixture component occurs in its key (or, for lists / sets, in the element); all other entries are
# never touched.
# ---------------------------------------------------------------------------------------------
_CONTAINER_NAMES = [None, -1]


def _containers(fx):
    ns = vars(fx.filters)
    if _CONTAINER_NAMES[1] != len(ns):
        _CONTAINER_NAMES[0] = [n for n in sorted(ns) if isinstance(ns[n], (dict, list, set)) and not n.startswith("__")]
        _CONTAINER_NAMES[1] = len(ns)
    return [(n, ns[n]) for n in _CONTAINER_NAMES[0] if isinstance(ns.get(n), (dict, list, set))]


def _owned(k, inset):
    try:
        if k in inset:
            return True
    except TypeError:
        pass
    if isinstance(k, (tuple, frozenset, list, set)):
        return any(_owned(x, inset) for x in k)
    return False


def _build_shape(fx, sh, nodes):
    """Builds one declared shape with the real machinery; returns the SpecSet classes it created."""
    from insights.core import Parser
    from insights.core.context import HostContext
    from insights.core.plugins import parser, combiner, datasource
    from insights.core.spec_factory import RegistryPoint, SpecSet, SpecSetMeta, first_of, simple_file
    comp, classes = {}, []
    attr = dict((n, n.lower()) for n in nodes)
    for n in sorted(nodes):
        if nodes[n][0] == "n":
            comp[n] = simple_file("/in_file", context=HostContext)
    base = SpecSetMeta("C07x_%s" % sh, (SpecSet,),
                       dict([("__module__", __name__)] + [(attr[n], RegistryPoint(filterable=nodes[n][1]))
                                                         for n in sorted(nodes) if nodes[n][0] == "pt"]))
    classes.append(base)
    for n in sorted(nodes):
        if nodes[n][0] == "pt":
            comp[n] = getattr(base, attr[n])
    todo = [n for n in sorted(nodes) if n not in comp]
    while todo:
        progressed = False
        for n in list(todo):
            spec = nodes[n]
            t = spec[0]
            deps = spec[2] if t == "impl" and len(spec) > 2 else ([] if t == "impl" else spec[1])
            if any(d not in comp for d in deps):
                continue
            if t == "impl":
                obj = first_of([comp[d] for d in deps]) if deps else simple_file("/in_file", context=HostContext)
                cls = SpecSetMeta("C07x_%s_%s" % (sh, n), (base,), {"__module__": __name__, attr[spec[1]]: obj})
                classes.append(cls)
                comp[n] = getattr(cls, attr[spec[1]])
            elif t == "fo":
                comp[n] = first_of([comp[d] for d in deps])
            elif t == "ds":
                def helper(*args):
                    return ["helper"]
                helper.__name__ = "c07x_%s_%s" % (sh, attr[n])
                comp[n] = datasource(*[comp[d] for d in deps])(helper)
            elif t == "parser":
                cls = type("C07x_%s_%s" % (sh, n), (Parser,), {"__module__": __name__,
                                                               "parse_content": lambda self, content: None})
                comp[n] = parser(*[comp[d] for d in deps])(cls)
            else:
                def comb(*args):
                    return args
                comb.__name__ = "c07x_%s_%s" % (sh, attr[n])
                comp[n] = combiner(*[comp[d] for d in deps])(comb)
            todo.remove(n)
            progressed = True
        if not progressed:
            raise RuntimeError("shape %s has a cycle" % sh)
    for n in nodes:
        fx.comp["%s.%s" % (sh, n)] = comp[n]
    return classes


def _reset_tables(fx, inset=None, containers=None):
    """Removes every entry of the fixture's components from every state container."""
    inset = fx.allset if inset is None else inset
    for _, obj in (containers or _containers(fx)):
        if isinstance(obj, dict):
            for k in [k for k in obj if _owned(k, inset)]:
                del obj[k]
        elif isinstance(obj, list):
            obj[:] = [x for x in obj if not _owned(x, inset)]
        else:
            for x in [x for x in obj if _owned(x, inset)]:
                obj.discard(x)


def _copy_struct(v, memo):
    """Copies dict / list / set structure (order and object sharing kept), leaves everything else by reference."""
    if isinstance(v, (dict, list, set)):
        if id(v) in memo:
            return memo[id(v)]
        if isinstance(v, dict):
            out = memo[id(v)] = {}
            for k, x in v.items():
                out[k] = _copy_struct(x, memo)
        elif isinstance(v, list):
            out = memo[id(v)] = []
            out.extend(_copy_struct(x, memo) for x in v)
        else:
            out = memo[id(v)] = set(v)
        return out
    return v


def _snapshot_tables(fx):
    """The fixture's part of every state container as the real calls left it (insertion order and sharing kept)."""
    inset = fx.allset
    snap = []
    for name, obj in _containers(fx):
        if isinstance(obj, dict):
            snap.append((name, [(k, v) for k, v in obj.items() if _owned(k, inset)]))
        else:
            snap.append((name, [x for x in obj if _owned(x, inset)]))
    return snap


def _restore_tables(fx, snap):
    """Fresh container objects holding the snapshotted state: what re-doing the registration from scratch yields.
    Makes every case independent of what earlier cases may have done to the shared tables."""
    _reset_tables(fx)
    live = dict(_containers(fx))
    memo = {}
    for name, entries in snap:
        obj = live[name]
        if isinstance(obj, dict):
            for k, v in entries:
                obj[k] = _copy_struct(v, memo)
        elif isinstance(obj, list):
            obj.extend(_copy_struct(x, memo) for x in entries)
        else:
            obj.update(entries)


def _mkroot(fx):
    shutil.rmtree(fx.root, ignore_errors=True)
    os.makedirs(os.path.join(fx.root, "out"))


def _rmroot(fx):
    shutil.rmtree(fx.root, ignore_errors=True)


# ---------------------------------------------------------------------------------------------
# Part A - histories
#
# State merge argument.  add_filter / get_filters read: the dependency graph (dr.get_dependencies / get_dependents /
# get_delegate(...).filterable / .raw, plugins.is_datasource, the components' `filterable` attribute), the module
# constant ENABLED, and the two module-level tables FILTERS and _CACHE.  They write FILTERS and _CACHE only.  The
# graph and ENABLED are fixed during the search, so two histories that leave the same (FILTERS, _CACHE) - restricted
# to the fixture's components, nothing else is reachable from them - and the same sharing of dict objects between
# table slots (in-place updates make object identity observable) have the same futures.  Dict insertion order is
# dropped from the canonical form: every observation made here (a set, a dict compared by equality, raised / not
# raised) and every table update (max over the union of keys) is insensitive to it.  The merge is additionally
# validated: each discovered state's shortest history is re-executed from empty tables and must produce the same
# canonical state; each counterexample is re-executed the same way before it is reported.
#
# A state in which some look-up already answers wrongly is reported (shortest history + that look-up) and NOT
# expanded: everything behind it is behind a reported violation.  This keeps the search finite and small on a
# tree with a stale-cache defect (otherwise every stale cache content is a state of its own).
# ---------------------------------------------------------------------------------------------
def _cv(v, idx):
    """Canonical form of a value: containers sorted, fixture components by index, scalars as they are."""
    c = v.__class__
    if c is str or c is int or v is None or c is bool or c is float:
        return v
    if c is dict or isinstance(v, dict):
        flat = True
        for k, x in v.items():
            if k.__class__ not in _SC or x.__class__ not in _SC:
                flat = False
                break
        if flat:
            try:
                return ("D", tuple(sorted(v.items())))      # flat dict of scalars
            except TypeError:
                pass
        items = [(_cv(k, idx), _cv(x, idx)) for k, x in v.items()]
        try:
            items.sort()
        except TypeError:
            items.sort(key=repr)
        return ("d", tuple(items))
    if isinstance(v, (list, tuple)):
        return ("t" if isinstance(v, tuple) else "l", tuple(_cv(x, idx) for x in v))
    if isinstance(v, (set, frozenset)):
        return ("s", tuple(sorted((_cv(x, idx) for x in v), key=repr)))
    try:
        i = idx.get(v)
    except TypeError:
        i = None
    if i is not None:
        return ("c", i)
    if isinstance(v, str):
        return str(v)
    _OPAQUE[id(v)] = v
    return ("o", id(v))


_OPAQUE = {}
_SC = (str, int, bool, float, type(None))


def _rv(cv, comps):
    """Inverse of _cv (fresh containers)."""
    if cv.__class__ is not tuple:
        return cv
    tag, body = cv
    if tag == "D":
        return dict(body)
    if tag == "d":
        return dict((k if k.__class__ is not tuple else _rv(k, comps), x if x.__class__ is not tuple else _rv(x, comps))
                    for k, x in body)
    if tag == "l":
        return [_rv(x, comps) for x in body]
    if tag == "t":
        return tuple(_rv(x, comps) for x in body)
    if tag == "s":
        return set(_rv(x, comps) for x in body)
    if tag == "c":
        return comps[body]
    return _OPAQUE[body]


def _canon(fx, g="main"):
    """Canonical state restricted to the components of fixture g: for every state container that holds entries of the
    fixture, its name and the sorted canonical entries; plus the SHARING pattern: which entries hold the very same
    container object (an in-place update through one slot is visible through the others, so identity is part of the
    state; a correct implementation never shares, the second component is then empty)."""
    idx = fx.idxs[g]
    tabs, ids, n = [], {}, 0
    for name, obj in _containers(fx):
        if isinstance(obj, dict):
            ent = []
            for k, v in obj.items():
                try:
                    i = idx.get(k)
                except TypeError:
                    i = None
                if i is not None:
                    ck = ("c", i)
                elif k.__class__ in _SC or not _owned(k, idx):
                    continue
                else:
                    ck = _cv(k, idx)
                if True:
                    ent.append((ck, _cv(v, idx)))
                    if isinstance(v, (dict, list, set)):
                        ids.setdefault(id(v), []).append((name, ck))
                        n += 1
            if ent:
                try:
                    ent.sort()
                except TypeError:
                    ent.sort(key=repr)
                tabs.append((name, "d", tuple(ent)))
        else:
            ent = [_cv(x, idx) for x in obj if _owned(x, idx)]
            if ent:
                if isinstance(obj, set):
                    ent.sort(key=repr)
                tabs.append((name, "s" if isinstance(obj, set) else "l", tuple(ent)))
    shared = ()
    if len(ids) < n:
        shared = tuple(sorted(tuple(sorted(slots, key=repr)) for slots in ids.values() if len(slots) > 1))
    return (tuple(tabs), shared)


def _restore(fx, canon, g="main"):
    idx, comps = fx.idxs[g], fx.parts[g]
    cont = _containers(fx)
    _reset_tables(fx, idx, cont)
    live = dict(cont)
    for name, kind, ent in canon[0]:
        obj = live[name]
        if kind == "d":
            for ck, cv in ent:
                obj[comps[ck[1]] if ck[0] == "c" else _rv(ck, comps)] = dict(cv[1]) if cv.__class__ is tuple and cv[0] == "D" else _rv(cv, comps)
        elif kind == "l":
            obj.extend(_rv(x, comps) for x in ent)
        else:
            obj.update(_rv(x, comps) for x in ent)
    for slots in canon[1]:
        n0, k0 = slots[0]
        one = live[n0][_rv(k0, comps)]
        for n1, k1 in slots[1:]:
            live[n1][_rv(k1, comps)] = one


def _comps_in(cv, out):
    if cv.__class__ is tuple:
        if cv[0] == "c":
            out.add(cv[1])
        else:
            for x in cv[1]:
                _comps_in(x, out)
    return out


def _memo_targets(real):
    """Component indices that occur in keys of state containers OTHER than the public registration table: the
    components for which some look-up memo exists in this state (used only to measure non-triviality)."""
    out = set()
    for name, kind, ent in real[0]:
        if name != "FILTERS":
            for e in ent:
                _comps_in(e[0] if kind == "d" else e, out)
    return out


def _has_val(cv, n):
    """the scalar n occurs somewhere in the ENTRIES of the canonical state (component indices, tags, names excluded)"""
    if cv.__class__ is tuple:
        if len(cv) == 2 and cv[0].__class__ is str and cv[0] in ("c", "o"):
            return False
        if len(cv) == 2 and cv[0].__class__ is str and cv[0] in ("D", "d", "l", "t", "s"):
            return _has_val(cv[1], n)
        if len(cv) == 3 and cv[1].__class__ is str and cv[1] in ("d", "l", "s") and cv[0].__class__ is str:
            return _has_val(cv[2], n)          # (container name, kind, entries)
        return any(_has_val(x, n) for x in cv)
    return cv.__class__ is n.__class__ and cv == n


_has_int = _has_val


def _do(fx, ev):
    """Executes one event on the real functions. Observation is JSON-able."""
    if ev[0] == "get":
        try:
            r = fx.filters.get_filters(fx.comp[ev[1]], ev[2])
        except Exception as ex:
            return "raised " + type(ex).__name__
        if ev[2]:
            return dict(r) if isinstance(r, dict) else "not a dict: " + type(r).__name__
        return sorted(r) if isinstance(r, (set, frozenset)) else "not a set: " + type(r).__name__
    if ev[0] == "roundtrip":
        try:
            fx.filters.loads(fx.filters.dumps())
        except Exception as ex:
            return "raised " + type(ex).__name__
        return "ok"
    try:
        if ev[3] is None:
            fx.filters.add_filter(fx.comp[ev[1]], _decode_arg(ev[2]))
        else:
            fx.filters.add_filter(fx.comp[ev[1]], _decode_arg(ev[2]), _decode_arg(ev[3]))
    except Exception as ex:
        return "raised " + type(ex).__name__
    return "ok"


def _judge_event(model, ev, obs):
    """Advances the model over `ev` and returns None or (clause, expected, observed)."""
    if ev[0] == "get":
        exp = model.judge_lookup(ev[1], ev[2], obs)
        return None if exp is None else (CL_LOOKUP, exp, obs)
    if ev[0] == "roundtrip":      # persisting and re-loading the registrations changes nothing
        return None if obs == "ok" else (CL_ROUNDTRIP, "ok", obs)
    try:
        how = model.add(ev[1], ev[2], ev[3])
    except NotApplicable:
        return None if obs.startswith("raised") else (CL_RAISE, "an exception (filters are not applicable to this target)", obs)
    except Invalid as inv:
        return None if obs.startswith("raised") else (CL_INVALID, "an exception (%s)" % inv, obs)
    if how == "either":
        return None
    return None if obs == "ok" else (CL_ADD_OK, "ok", obs)


def _stale_feature(events, n, obs):
    """Structural classification of a wrong look-up at index n on X: an earlier look-up on X (after the last
    registration landing on X itself) already had this answer right, a registration then landed on ANOTHER component
    whose filters flow to X, and the answer at n is still the earlier one."""
    x, wm = events[n][1], events[n][2]
    model = RefModel()
    first_get_model = None
    other_add_since = False
    for ev in events[:n]:
        if ev[0] == "get":
            if ev[1] == x and first_get_model is None:
                first_get_model = RefModel(model.key())
                other_add_since = False
            continue
        if ev[0] != "add":
            continue
        try:
            land = model.landing(ev[1])
            if model.add(ev[1], ev[2], ev[3]) != "ok":
                continue
        except (NotApplicable, Invalid):
            continue
        if x in land:
            first_get_model = None          # the real code evicts X's cache entry here
        elif first_get_model is not None and any(c in model.chain(x) for c in land):
            other_add_since = True
    if first_get_model is not None and other_add_since and first_get_model.judge_lookup(x, wm, obs) is None:
        return "registry_point_or_dependent"
    return "none"


def check_history(case):
    """Re-executes a history from empty tables on the real functions; returns [(clause, expected, observed, features)]
    for the first event whose outcome the reference rejects."""
    fx = _fx()
    events = case["events"]
    _reset_tables(fx)
    model = RefModel()
    try:
        for n, ev in enumerate(events):
            obs = _do(fx, ev)
            bad = _judge_event(model, ev, obs)
            if ev[0] == "get" and sorted(model.keys(ev[1])) != sorted(literal_keys(events[:n], ev[1])):
                raise RuntimeError("reference formulations disagree on %r" % (events[:n + 1],))
            if bad:
                feats = {"stale_cache_after_add_on": _stale_feature(events, n, obs) if ev[0] == "get" else "none",
                         "event": ev[0]}
                return [(bad[0], bad[1], bad[2], feats)]
        return []
    finally:
        _reset_tables(fx)


def extra_events(t, t2):
    """Boundary / typed arguments, once per state on the fixture's first add target t (t2 = its last add target):
    documented refusals (must raise, nothing registered), every documented pattern type, an explicit max_match equal to
    the default, an empty list / set (either outcome), and a dumps() -> loads() round trip of the registration table."""
    bad_budgets = [{"arg": 0}, {"arg": -1}, {"arg": None}, {"arg": True}, {"arg": False}, {"arg": "1"}, {"arg": 1.0}]
    ev = [["add", t, "a", m] for m in bad_budgets]
    ev += [["add", t, "", None], ["add", t, ["a", ""], None], ["add", t2, ["", "b"], 1], ["add", t, {"set": ["", "a"]}, None],
           ["add", t, {"tuple": ["a"]}, None], ["add", t, {"arg": None}, None], ["add", t, {"arg": 5}, None],
           ["add", t, {"arg": 0}, None], ["add", t, {"arg": False}, None], ["add", t, "", {"arg": 0}]]
    ev += [["add", t, [], None], ["add", t, {"set": []}, None], ["add", t2, [], 1]]
    ev += [["add", t, ["a"], None], ["add", t, ["b", "a"], 1], ["add", t2, ["a", "b"], None], ["add", t, {"set": ["a", "b"]}, None],
           ["add", t2, {"set": ["b"]}, 1], ["add", t, ["a", "a"], None], ["add", t, "a", {"arg": DEFAULT_BUDGET}]]
    ev += [["roundtrip"]]
    return ev


def _history_final_canon(fx, events, g="main"):
    _reset_tables(fx)
    for ev in events:
        _do(fx, ev)
    return _canon(fx, g)


def explore_histories(unit, res):
    fx = _fx()
    patterns, budgets = unit["patterns"], unit["budgets"]
    only2 = unit.get("count_only_with_budget")
    g = unit.get("fixture", "main")
    G = FIXTURES[g]
    GET_TARGETS = G["get"]
    ev_get = [["get", t, wm] for t in GET_TARGETS for wm in (False, True)]
    ev_add = [["add", t, p, m] for t in unit.get("add", G["add"]) for p in patterns for m in budgets]
    ev_add += [["add", t, patterns[0], None] for t in G["bad"]]
    get_idx = dict((t, G["comps"].index(t)) for t in GET_TARGETS)
    first_get = GET_TARGETS[0]
    n_plain = len(ev_add)
    if unit.get("extras"):
        ev_add += extra_events(G["add"][0], G["add"][-1])
    only_extras = unit.get("count_only") == "extras"
    max_states = unit.get("max_states", 600000)
    get_set = set(get_idx.values())
    _reset_tables(fx)
    k0 = (_canon(fx, g), RefModel().key())
    parent = {k0: None}
    frontier = collections.deque([k0])
    depth = {k0: 0}
    cex = []

    def history(k, ev=None):
        h = [] if ev is None else [ev]
        while parent[k] is not None:
            k, e = parent[k]
            h.append(e)
        h.reverse()
        return h

    onlyp = unit.get("count_only_with_pattern")

    def counted(real, ev):
        if only_extras:
            return any(ev is x for x in ev_add[n_plain:])
        if onlyp is not None:
            return (ev[0] == "add" and ev[2] == onlyp) or _has_val(real[0], onlyp)
        if only2 is None:
            return True
        return (ev[0] == "add" and ev[3] == only2) or _has_int(real[0], only2)

    try:
        while frontier:
            key = frontier.popleft()
            real, mkey = key
            d = depth[key]
            succ = []
            bad_state = False
            state_model = RefModel(mkey)
            cached = _memo_targets(real)
            # the invariant of the state: every look-up answers what the reference says
            for ev in ev_get:
                _restore(fx, real, g)
                obs = _do(fx, ev)
                res.transitions += 1
                if counted(real, ev):
                    res.evals += 1
                    if get_idx[ev[1]] in cached:
                        res.nontrivial += 1
                v = _judge_event(state_model, ev, obs)
                if v:
                    bad_state = True
                    cex.append((history(key, ev), v[0]))
                    res.outcomes.add("get:%s:wrong" % ev[1])
                else:
                    res.outcomes.add("get:%s:%s:%d:%s" % (g, "point" if ev[1] == first_get else "below", len(obs), "cached" if get_idx[ev[1]] in cached else "fresh"))
                    succ.append(((_canon(fx, g), mkey), ev))
            if bad_state:
                res.stat("bad_states_not_expanded")
                continue            # a state violating the invariant is reported, not expanded
            any_cache = bool(cached & get_set)
            for ev in ev_add:
                _restore(fx, real, g)
                obs = _do(fx, ev)
                res.transitions += 1
                if counted(real, ev):
                    res.evals += 1
                    if any_cache:
                        res.nontrivial += 1
                model = RefModel(mkey)
                v = _judge_event(model, ev, obs)
                if v:
                    cex.append((history(key, ev), v[0]))
                    res.outcomes.add("add:wrong")
                    continue
                res.outcomes.add("%s:%s:%s" % (ev[0], ev[1] if len(ev) > 1 else "", obs))
                succ.append(((_canon(fx, g), model.key()), ev))
            for k2, ev in succ:
                if k2 not in parent:
                    parent[k2] = (key, ev)
                    depth[k2] = d + 1
                    frontier.append(k2)
            if len(parent) > max_states:
                # does not close within the horizon: a verdict about coverage (the run is not exhaustive), neither a
                # harness error nor - the statement does not bound the number of internal states - a violation
                res.exhaustive = False
                res.notes.append("history unit %s: more than %d states, search cut" % (unit["name"], max_states))
                break
        res.states += len(parent)
        res.maxi("history_depth_to_closure", max(depth.values()))
        res.stat("history_states_%s" % unit["name"], len(parent))
        # every discovered state: its shortest history re-executed from empty tables must land in the same
        # canonical state (validates restore/canon), and both reference formulations must agree on it
        for k in parent:
            h = history(k)
            if _history_final_canon(fx, h, g) != k[0]:
                raise RuntimeError("restored state differs from re-executed history %r" % (h,))
            m = RefModel(k[1])
            for t in GET_TARGETS:
                if sorted(m.keys(t)) != sorted(literal_keys(h, t)):
                    raise RuntimeError("reference formulations disagree on %r" % (h,))
            res.traces += 1
        # counterexamples are re-executed along their shortest history before they are reported
        for h, clause in cex:
            case = {"part": "history", "events": h} if g == "main" else {"part": "history", "fixture": g, "events": h}
            vs = check_history(case)
            res.traces += 1
            if not vs or vs[0][0] != clause:
                raise RuntimeError("BFS counterexample did not re-execute: %r %r -> %r" % (clause, h, vs))
            c, e, o, f = vs[0]
            res.violation(c, case, e, o, f)
        res.stat("history_counterexamples", len(cex))
        dmax = max(depth.values())
        res.samples.append({"part": "history", "fixture": g, "events": history(next(k for k in parent if depth[k] == dmax))})
    finally:
        _reset_tables(fx)


# ---------------------------------------------------------------------------------------------
# Part B - content
# ---------------------------------------------------------------------------------------------
def _greedy(lines, out):
    idx, i = [], len(lines) - 1
    for x in reversed(out):
        while i >= 0 and lines[i] != x:
            i -= 1
        if i < 0:
            return None
        idx.append(i)
        i -= 1
    idx.reverse()
    return tuple(idx)


def _embeddings(lines, out):
    n, m = len(lines), len(out)

    def rec(i, j):
        if j == m:
            yield ()
            return
        for k in range(i, n - (m - j) + 1):
            if lines[k] == out[j]:
                for rest in rec(k + 1, j + 1):
                    yield (k,) + rest
    return rec(0, 0)


def _eval_embedding(lines, emb, flt, budgeted):
    kept = set(emb)
    match = [[f for f in flt if f in l] for l in lines]
    for f in sorted(flt):
        last = -1
        for i, m in enumerate(match):
            if f in m:
                last = i
        if last >= 0 and last not in kept:
            return (CL_LAST, {"filter": f, "must_keep_line_index": last}, {"kept_indices": list(emb)})
    for i, m in enumerate(match):
        if not m or i in kept:
            continue
        if not budgeted:
            return (CL_DROP, {"must_keep_line_index": i}, {"kept_indices": list(emb)})
        ok = False
        for f in m:
            below = sum(1 for j in kept if j > i and f in match[j])
            if below >= (DEFAULT_BUDGET if flt[f] is None else flt[f]):
                ok = True
                break
        if not ok:
            return (CL_BUDGET, {"must_keep_line_index": i, "filters_of_line": sorted(m)}, {"kept_indices": list(emb)})
    return None


def judge(lines, out, flt, budgeted):
    """Declarative oracle.  flt = {filter string: budget or None}.  Returns None or (clause, expected, observed).
    Where repeated lines make the kept positions ambiguous the reading most favourable to the code is taken:
    a violation is reported only when NO embedding of the output into the input satisfies the clauses."""
    if not isinstance(out, list) or any(not isinstance(x, str) for x in out):
        return (CL_SUBSEQ, "a list of lines", repr(out)[:200])
    emb = _greedy(lines, out)
    if emb is None:
        return (CL_SUBSEQ, "an order-preserving sub-sequence of the input", out)
    for x in out:
        if x and not any(f in x for f in flt):
            return (CL_KEPT, "every kept non-empty line contains one of %r" % sorted(flt), out)
    v = _eval_embedding(lines, emb, flt, budgeted)
    if v is None:
        return None
    if len(set(lines)) < len(lines):
        for e in _embeddings(lines, out):
            if e != emb and _eval_embedding(lines, e, flt, budgeted) is None:
                return None
    return (v[0], v[1], {"output": out, "kept_indices": v[2]["kept_indices"]})


def ref_bottom_up(lines, flt):
    """The documented algorithm (bottom-up, first live key is charged) - used ONLY to validate the judge."""
    live = dict((f, DEFAULT_BUDGET if b is None else b) for f, b in flt.items())
    out = []
    for l in reversed(lines):
        for f in list(live):
            if f in l:
                live[f] -= 1
                if live[f] == 0:
                    del live[f]
                out.append(l)
                break
    out.reverse()
    return out


def _budget_sets(subset, combos):
    return [[[f, b] for f, b in zip(subset, bs)] for bs in combos]


def filter_sets(tier):
    """The listed budgeted filter sets: [[string, budget-or-None], ...] in FILTER_STRINGS order."""
    F = FILTER_STRINGS
    out = []
    if tier == "quick":
        for f in F:
            out += _budget_sets([f], [(1,), (2,), (None,)])
        overlap = [("a", "b"), ("a", "-a"), ("a", ".*"), ("a", "[a]")]
        for pair in itertools.combinations(F, 2):
            combos = [(1, 1), (None, None)] + ([(1, 2), (2, 1)] if pair in overlap else [])
            out += _budget_sets(list(pair), combos)
        out += _budget_sets(F, [(1,) * 5, (2,) * 5, (None,) * 5])
    else:
        for k in range(1, len(F) + 1):
            for sub in itertools.combinations(F, k):
                if k == 2:
                    combos = list(itertools.product([1, 2, None], repeat=2))
                else:
                    combos = [(b,) * k for b in (1, 2, None)]
                out += _budget_sets(list(sub), combos)
    return out


def host_filter_sets(tier):
    F = FILTER_STRINGS
    out = []
    for f in F:
        out += _budget_sets([f], [(None,)])
    out += _budget_sets(["a"], [(1,)]) + _budget_sets(["-a"], [(1,)])
    for pair in (("a", "b"), ("a", "-a"), ("-a", ".*"), ("-a", "[a]"), (".*", "[a]"), ("b", "-a")):
        out += _budget_sets(list(pair), [(None, None)])
    out += _budget_sets(["a", "-a"], [(1, 1)])
    out += _budget_sets(F, [(None,) * 5, (1,) * 5])
    if tier == "thorough":
        out += _budget_sets(["a"], [(2,)]) + _budget_sets(["-a"], [(2,)])
        for pair in (("a", ".*"), ("a", "[a]"), ("b", ".*")):
            out += _budget_sets(list(pair), [(None, None)])
        out += _budget_sets(F, [(2,) * 5])
    return out


VIAS = ["point", "parser", "impl"]


def with_via(fs, si):
    """How each string of the set is registered (on the registry point, through a parser, on the implementation):
    fixed rule from the set's index so that all three routes are exercised."""
    return [[f, b, VIAS[(si + k) % 3]] for k, (f, b) in enumerate(fs)]


# A filter descriptor is a list, in REGISTRATION ORDER, of
#   [string, budget|null, via]                                           one add_filter(target(via), string[, budget])
#   {"set": [strings], "perm": [hashes], "budget": b|null, "via": via}   one add_filter(target, set(strings)[, b]) where
#        the strings are str objects with forced hashes, so that the set's iteration order is the descriptor's choice
def _flat(flts):
    out = []
    for e in flts:
        if isinstance(e, dict):
            out += [(f, e.get("budget"), e["via"]) for f in e["set"]]
        else:
            out.append((e[0], e[1], e[2]))
    return out


def _effective(flts):
    """{string: budget|None} the content clauses are judged with.  One string registered several times: on one
    component the largest budget counts (as in Part A); across components (implementation vs point) the statement is
    silent, the SMALLEST is taken - a drop is accepted as soon as any candidate budget is used up."""
    per = {}
    for f, b, via in _flat(flts):
        place = "impl" if via == "impl" else "point"
        b = DEFAULT_BUDGET if b is None else b
        per.setdefault(f, {})
        per[f][place] = max(per[f].get(place, 0), b)
    out = {}
    for f, places in per.items():
        m = min(places.values())
        out[f] = None if m >= DEFAULT_BUDGET else m
    return out


def _register(fx, triple, flts):
    from mc.forcedhash import HStr
    _reset_tables(fx)
    for e in flts:
        if isinstance(e, dict):
            tgt = fx.triples[triple][e["via"]]
            pats = set(HStr(f, h) for f, h in zip(e["set"], e["perm"]))
            if e.get("budget") is None:
                fx.filters.add_filter(tgt, pats)
            else:
                fx.filters.add_filter(tgt, pats, e["budget"])
            continue
        f, b, via = e
        tgt = fx.triples[triple][via]
        if b is None:
            fx.filters.add_filter(tgt, f)
        else:
            fx.filters.add_filter(tgt, f, b)


def _write_input(fx, name, lines):
    with open(os.path.join(fx.root, name), "w", encoding="utf-8") as fh:
        fh.write("".join(l + "\n" for l in lines))


_LIMIT = [None]     # MAX_CONTENT_SIZE configured for the running case (None: the module's own 200 MB)


@contextlib.contextmanager
def _content_limit(m):
    """Configures the documented module constant for one case and restores it."""
    from insights.core import spec_factory
    old = spec_factory.MAX_CONTENT_SIZE
    if m is not None:
        spec_factory.MAX_CONTENT_SIZE = m
    _LIMIT[0] = m
    try:
        yield
    finally:
        spec_factory.MAX_CONTENT_SIZE = old
        _LIMIT[0] = None


def _surviving(lines):
    """The lines a non-grep read of the file serves under the configured limit, as documented in load(): a file LARGER
    than the limit is read from byte (size - limit) on and the first line read - "which is broken" - is discarded
    (also when the cut happens to fall on a line boundary); a file of at most `limit` bytes is read whole."""
    m = _LIMIT[0]
    if m is None:
        return lines
    data = "".join(l + "\n" for l in lines).encode("utf-8")
    if len(data) <= m:
        return lines
    text = data[len(data) - m:].decode("utf-8", "surrogateescape")
    parts = text.split("\n")
    if parts and parts[-1] == "":
        parts.pop()
    return parts[1:]


# The customer's file-content redaction (exclude patterns) configured for the running case: None, {"plain": [strings]}
# (a line containing one of the strings is removed) or {"regex": [expressions]} (a line one of them is found in is removed;
# expressions without POSIX classes, so python's re decides).  It is CONFIGURATION handed to the public Cleaner constructor
# in the documented rm_conf form, for a group of cases.
_REDACT = [None]


@contextlib.contextmanager
def _redaction(conf):
    _REDACT[0] = conf
    try:
        yield
    finally:
        _REDACT[0] = None


def _is_redacted(line, conf):
    import re
    if not line or not conf:
        return False
    if "regex" in conf:
        return any(re.search(p, line) for p in conf["regex"])
    return any(p in line for p in conf["plain"])


def _after_redaction(lines):
    """The lines the configured redaction leaves ("Redaction ... is a must-be-done operation to all the collected specs";
    the cleaner documents the order Redact, Filter, Obfuscate): what a cleaned content is judged against.  A line removed
    by the redaction is not part of the content, so it can neither be "the last line matching a filter" nor use a match
    budget up - the budget clause counts KEPT lines only.  Without a configured redaction: the very same list object."""
    conf = _REDACT[0]
    if not conf:
        return lines
    return [l for l in lines if not _is_redacted(l, conf)]


def _new_cleaner():
    from insights.cleaner import Cleaner
    conf = _REDACT[0]
    rm_conf = None
    if conf:
        rm_conf = {"patterns": {"regex": list(conf["regex"])} if "regex" in conf else list(conf["plain"])}
    c = Cleaner(None, rm_conf, fqdn="c07host.example.test")
    return c


def _second_file(lines):
    """Content of the second file of a multi-file spec: a fixed function of the first one, always with matches."""
    return list(reversed(lines)) + ["xa", "b"]


def _archive_provider(fx, lines):
    from insights.core.spec_factory import TextFileProvider
    _write_input(fx, "in_file", lines)
    return TextFileProvider("in_file", root=fx.root, ds=fx.comp["I2"], ctx=fx.HostArchiveContext(root=fx.root))


def _obs_archive(fx, lines):
    return _archive_provider(fx, lines).content


def _obs_cleaner(fx, cleaner, lines):
    # exactly what ContentProvider._clean_content passes: the looked-up {filter: budget} table of the datasource
    return cleaner.clean_content(list(lines), allowlist=fx.filters.get_filters(fx.comp["I2"], True))


def _obs_apply(fx, lines):
    return list(fx.filters.apply_filters(fx.comp["I2"], list(lines)))


def _host_broker(fx):
    b = fx.dr.Broker()
    b[fx.HostContext] = fx.HostContext(root=fx.root)
    b["cleaner"] = _new_cleaner()
    return b


def _short(fx, ex):
    return "not collected: " + repr(ex).replace(fx.root, "<root>")[:160]


def _provider_stages(fx, prov, lines, tag="", stream=False, again=False):
    """Observation points of one host provider: [stream() before anything is loaded,] content (after the grep
    pre-filter), the file produced by write() with a cleaner [, a second write() of the same provider]."""
    from insights.core.exceptions import ContentException, CalledProcessError
    stages = []
    if stream:
        try:
            stages.append(("stream" + tag, lines, list(prov.stream()), None))
        except (ContentException, CalledProcessError) as ex:
            stages.append(("stream" + tag, lines, [], _short(fx, ex)))
    try:
        stages.append(("content" + tag, lines, list(prov.content), None))
    except (ContentException, CalledProcessError) as ex:
        stages.append(("content" + tag, lines, [], _short(fx, ex)))
    for k, name in enumerate(["written", "written-again"] if again else ["written"]):
        dst = os.path.join(fx.root, "out", "spec%d" % k)
        try:
            prov.write(dst)
            with open(dst) as fh:
                data = fh.read()
            stages.append((name + tag, _after_redaction(lines), data.split("\n") if data else [], None))
        except (ContentException, CalledProcessError) as ex:
            stages.append((name + tag, _after_redaction(lines), [], _short(fx, ex)))
    return stages


HOST_MULTI = {"host-glob": "glob_file", "host-foreach-collect": "foreach_collect", "host-foreach-execute": "foreach_execute"}


def _obs_host(fx, path, lines, flts):
    """Host collection of one spec through the real datasource and the real grep.  For the single-provider paths the
    provider is observed through stream() (short contents), content, write(), a second write(); when budgets are in
    play the whole collection is done a second time in the same process.  For the multi-file factories every
    provider of the list is judged against its own file."""
    multi = path in HOST_MULTI
    point = fx.comp["NF_" + HOST_MULTI[path]] if multi else fx.triples[path]["point"]
    second = _second_file(lines)
    if multi:
        _write_input(fx, "in_file", lines)
        _write_input(fx, "in_cmd", lines)
        _write_input(fx, "in_file2", second)
        _write_input(fx, "in_cmd2", second)
    else:
        _write_input(fx, "in_file" if path == "host-file" else "in_cmd", lines)
    stages = []
    budgets = any(b is not None for _, b, _ in _flat(flts))
    for rnd in ((0, 1) if budgets and not multi else (0,)):
        tag = "#2" if rnd else ""
        b = _host_broker(fx)
        fx.dr.run(fx.dr.get_dependency_graph(point), b)
        if point not in b:
            note = "absent: " + "; ".join(sorted(set(repr(e)[:80] for v in b.exceptions.values() for e in v)))
            stages.append(("content" + tag, lines, [], note.replace(fx.root, "<root>")))
            if multi:
                stages.append(("content[1]", second, [], note.replace(fx.root, "<root>")))
            continue
        if not multi:
            stages += _provider_stages(fx, b[point], lines, tag, stream=(rnd == 0 and len(lines) != 2), again=(rnd == 0))
            continue
        provs = b[point]
        seen = set()
        for prov in (provs if isinstance(provs, list) else [provs]):
            which = 1 if (prov.relative_path or "").endswith("2") or (prov.cmd or "").endswith("2") else 0
            seen.add(which)
            stages += _provider_stages(fx, prov, second if which else lines, "[%d]" % which)
        for which in (0, 1):
            if which not in seen:
                stages.append(("content[%d]" % which, second if which else lines, [], "no provider for this file"))
    return stages


def _obs_archive_glob(fx, lines):
    second = _second_file(lines)
    _write_input(fx, "in_file", lines)
    _write_input(fx, "in_file2", second)
    b = fx.dr.Broker()
    b[fx.HostArchiveContext] = fx.HostArchiveContext(root=fx.root)
    provs = fx.comp["ANF_glob_file"](b)
    stages, seen = [], set()
    for prov in provs:
        which = 1 if prov.relative_path.endswith("2") else 0
        seen.add(which)
        stages.append(("content[%d]" % which, second if which else lines, prov.content, None))
    for which in (0, 1):
        if which not in seen:
            stages.append(("content[%d]" % which, second if which else lines, [], "no provider for this file"))
    return stages


def _features(path, flts, stage, out):
    flat = _flat(flts)
    grep_path = path in ("host-file", "host-cmd")
    feats = {"path": "host-grep" if grep_path else path,
             "filter_starts_with_dash": max(f for f, _, _ in flat).startswith("-"),
             "output_empty": out == []}
    if grep_path or path in HOST_MULTI or stage.startswith("stream"):
        feats["stage"] = stage
    if grep_path:
        feats["provider"] = "file" if path == "host-file" else "command"
    if any("\n" in f for f, _, _ in flat):
        feats["filter_contains_newline"] = True
    if _LIMIT[0] is not None:
        feats["content_limit_configured"] = True
    if _REDACT[0]:
        feats["redaction_configured"] = "regex" if "regex" in _REDACT[0] else "plain"
    return feats


def _observe(fx, path, lines, cleaner, flts):
    """-> [(stage, the input lines this stage is judged against, output lines, note)]"""
    if path == "archive-load":
        p = _archive_provider(fx, lines)
        src = _surviving(lines)
        if len(lines) > TWICE_MAX_LINES:           # stream() after the load: contents of <= 3 lines only
            return [("output", src, p.content, None)]
        return [("output", src, p.content, None), ("stream-after-load", src, list(p.stream()), None)]
    if path == "cleaner":
        return [("output", _after_redaction(lines), _obs_cleaner(fx, cleaner, lines), None)]
    if path == "cleaner-noredact":          # what _clean_content passes for a spec declared no_redact=True
        return [("output", lines, cleaner.clean_content(list(lines), no_redact=True,
                                                        allowlist=fx.filters.get_filters(fx.comp["I2"], True)), None)]
    if path == "apply":
        return [("output", lines, _obs_apply(fx, lines), None)]
    if path == "archive-load-twice":        # same registration, the file is loaded a second time
        _obs_archive(fx, lines)
        return [("second", _surviving(lines), _obs_archive(fx, lines), None)]
    if path == "cleaner-twice":
        _obs_cleaner(fx, cleaner, lines)
        return [("second", _after_redaction(lines), _obs_cleaner(fx, cleaner, lines), None)]
    if path == "archive-stream":            # stream() of a provider whose content was never loaded
        return [("output", _surviving(lines), list(_archive_provider(fx, lines).stream()), None)]
    if path == "archive-glob":
        return _obs_archive_glob(fx, lines)
    return _obs_host(fx, path, lines, flts)


PATH_TRIPLE = {"archive-load": "archive", "cleaner": "archive", "cleaner-noredact": "archive", "apply": "archive",
               "archive-load-twice": "archive",
               "cleaner-twice": "archive", "archive-stream": "archive", "archive-glob": "archive-glob",
               "host-file": "host-file", "host-cmd": "host-cmd", "host-glob": "host-glob",
               "host-foreach-collect": "host-foreach-collect", "host-foreach-execute": "host-foreach-execute"}
UNBUDGETED = ("apply",)
IN_PROCESS = ("archive-load", "cleaner", "apply")
TWICE = ("archive-load-twice", "cleaner-twice")     # contents of <= TWICE_MAX_LINES lines
TWICE_MAX_LINES = 3
SHORT = ("archive-stream",)                          # contents of <= SHORT_MAX_LINES lines
SHORT_MAX_LINES = 2


def _judge_path(fx, path, lines, flts, cleaner):
    """One (path, content) under the currently registered filter set -> (final output, violation-or-None)."""
    flt = _effective(flts)
    try:
        stages = _observe(fx, path, lines, cleaner, flts)
    except Exception as ex:
        return None, (CL_EXC, "no exception", "%s: %s" % (type(ex).__name__, str(ex)[:200]),
                      _features(path, flts, "raised", None))
    for stage, src, out, note in stages:
        v = judge(src, out, flt, path not in UNBUDGETED)
        if v and any(l.endswith("\r") for l in src):
            # a line "x\r" in a file is a CRLF-terminated line "x": whether the carriage return belongs to the line is
            # not said anywhere, so the content may equally be judged against the lines without it (one reading for
            # the whole content)
            v = judge([l[:-1] if l.endswith("\r") else l for l in src], out, flt, path not in UNBUDGETED)
        if v:
            obs = v[2] if isinstance(v[2], dict) else {"output": v[2]}
            if note:
                obs = dict(obs, note=note)
            if stage not in ("output", "second"):
                obs = dict(obs, stage=stage)
            if src is not lines:
                obs = dict(obs, judged_against=src)
            return out, (v[0], v[1], obs, _features(path, flts, stage, out))
    return stages[-1][2], None


def _report(res, clause, case, exp, obs, feats):
    """res.violation, but after the first few violations of one (clause, feature vector) only the counters are bumped
    (the accumulator's own de-duplication is quadratic; an open finding can match tens of thousands of cases)."""
    seen = res.__dict__.setdefault("_c07_seen", {})
    k = (clause, repr(sorted(feats.items())))
    seen[k] = seen.get(k, 0) + 1
    if seen[k] <= 3:
        res.violation(clause, case, exp, obs, feats)
    else:
        res.violation_total += 1
        res.violation_counts[clause] = res.violation_counts.get(clause, 0) + 1


def check_content(case):
    """case = {"part":"content","path":..,"lines":[..],"filters":[filter descriptor][,"max_content_size":n][,"redact":conf]}"""
    fx = _fx()
    _mkroot(fx)
    try:
        _register(fx, PATH_TRIPLE[case["path"]], case["filters"])
        with _content_limit(case.get("max_content_size")), _redaction(case.get("redact")):
            out, v = _judge_path(fx, case["path"], list(case["lines"]), case["filters"], _new_cleaner())
        return [v] if v else []
    finally:
        _reset_tables(fx)
        _rmroot(fx)


# extra-huge files: the truncated read, reached by configuring MAX_CONTENT_SIZE to a few bytes
SIGMA_H = ["a", "b", "\u00e9a", "c\u00e9", "-a", "c", ""]      # two lines with a 2-byte character (cut inside it)
HUGE_SETS = [[["a", None, "point"]], [["a", 1, "impl"]], [["a", 2, "point"], ["b", 1, "parser"]],
             [["b", None, "impl"], ["-a", 1, "point"]], [["\u00e9", 1, "point"]]]


def explore_huge(unit, tier, res):
    """Every content of <= 3 lines over SIGMA_H x EVERY limit from 0 to size+1 bytes (every cut position: inside a line,
    on a line boundary, inside a multi-byte character; size-1 / size / size+1 around the `>` of the size test) through
    archive-load (+ stream after load), archive-stream and the repeated load; on the host paths (the grep pre-filter
    reads the whole file, the limit must not matter there) contents of <= 2 lines with limits size-1 and size+1."""
    fx = _fx()
    flts = HUGE_SETS[unit["set"]]
    cleaner = _new_cleaner()
    _mkroot(fx)
    try:
        plan = [(("archive-load", "archive-stream", "archive-load-twice"), 3, None)]
        if unit.get("host"):
            plan = [(("host-file", "host-cmd"), 2 if tier == "quick" else 3, "around")]
        for paths, L, which in plan:
            for path in paths:
                _register(fx, PATH_TRIPLE[path], flts)
                snap = _snapshot_tables(fx)
                for t in enumx.strings(SIGMA_H, L):
                    lines = list(t)
                    n = len("".join(l + "\n" for l in lines).encode("utf-8"))
                    limits = (range(0, n + 2) if which is None and path != "archive-load-twice"
                              else [m for m in (n - 1, n + 1) if m >= 0])
                    for m in limits:
                        _restore_tables(fx, snap)
                        with _content_limit(m):
                            out, v = _judge_path(fx, path, lines, flts, cleaner)
                        res.evals += 1
                        if path.startswith("host"):
                            res.stat("real_grep_cases")
                        if out is not None:
                            if 0 < m < n and 0 < len(out) < len(lines):
                                res.nontrivial += 1
                            res.outcomes.add("huge:%s:%s:%d" % (path, "cut" if m < n else "whole", min(len(out), 3)))
                        if v:
                            _report(res, v[0], {"part": "content", "path": path, "lines": lines, "filters": flts,
                                                "max_content_size": m}, v[1], v[2], v[3])
        res.samples.append({"part": "content", "path": "archive-load", "lines": ["c", "\u00e9a", "a"], "filters": flts,
                            "max_content_size": 5})
    finally:
        _reset_tables(fx)
        _rmroot(fx)


def _contents(max_lines):
    return enumx.strings(SIGMA, max_lines)


SIGMA_X = ["a", "b", "ab", "-a", "[a]", "c"]     # quick: line alphabet of the extra filter descriptors


def extra_filter_lists(tier):
    """Filter descriptors beyond plain sets: registration ORDER, every combination of registration places, one string
    registered twice with different budgets, three filters with mixed budgets, a filter that is a superstring of two
    others ("ab"), set-typed arguments under every iteration order.  Judged on contents of <= 3 lines."""
    out = []
    pairs = [("a", "-a"), ("a", "[a]"), ("a", "b"), ("a", "ab"), ("b", "ab")]
    for x, y in pairs:
        full = tier != "quick" or (x, y) in (("a", "-a"), ("a", "ab"))
        for f, g in ((x, y), (y, x)):
            for v1 in VIAS:
                for v2 in (VIAS if full else VIAS[:1]):
                    out.append([[f, 1, v1], [g, 2, v2]])
            for bs in ((2, 1), (1, 1)):
                for v1, v2 in ((("point", "point"), ("impl", "point"), ("point", "impl")) if tier != "quick" else (("point", "point"),)):
                    out.append([[f, bs[0], v1], [g, bs[1], v2]])
    import itertools as it
    for tri, bud in ((("a", "b", "-a"), (1, 2, None)), (("a", "-a", "[a]"), (1, 2, None)), (("a", "b", "ab"), (2, 1, 1)),
                     (("a", "-a", "[a]"), (1, 1, 1))):
        for k, perm in enumerate(it.permutations(range(3))):
            out.append([[tri[i], bud[i], VIAS[(i + k) % 3]] for i in perm])
    # one string twice
    out += [[["a", 1, "impl"], ["a", 2, "point"]], [["a", 2, "point"], ["a", 1, "impl"]], [["a", 2, "impl"], ["a", 1, "point"]],
            [["a", 1, "point"], ["a", 2, "parser"]], [["a", 2, "parser"], ["a", 1, "point"], ["b", 1, "impl"]],
            [["a", 1, "impl"], ["b", 1, "point"], ["a", None, "point"]]]
    # set-typed arguments, every iteration order of the set (forced hashes)
    for strs in (("a", "-a"), ("a", "b"), ("a", "[a]"), ("a", "-a", "[a]"), ("a", "b", "ab")):
        for perm in it.permutations(range(len(strs))):
            for bud in ((1, 2) if tier == "quick" else (1, 2, None)):
                out.append([{"set": list(strs), "perm": list(perm), "budget": bud,
                             "via": VIAS[(perm[0] + (bud or 0)) % 3]}])
    return out


def explore_content(unit, tier, res):
    fx = _fx()
    contents = None
    if "xset" in unit:
        flts = extra_filter_lists(tier)[unit["xset"]]
        L = 3
        paths_for = lambda n: ("archive-load", "cleaner")
        if tier == "quick":
            contents = enumx.strings(SIGMA_X, L)
    else:
        si = unit["set"]
        flts = with_via(filter_sets(tier)[si], si)
        L = BOUNDS[tier]["content_max_lines"]
        fs = filter_sets(tier)[si]
        if (tier == "quick" and len(fs) == 2 and fs[0][1] is None and fs[1][1] is None
                and (fs[0][0], fs[1][0]) not in (("a", "b"), ("a", "-a"), ("a", ".*"), ("a", "[a]"))):
            L = 3      # quick: two non-overlapping filters without budgets add little on 4-line contents
        paths_for = lambda n: (IN_PROCESS + (TWICE if n <= TWICE_MAX_LINES else ())
                               + (SHORT + ("archive-glob",) if n <= SHORT_MAX_LINES else ()))
    cleaner = _new_cleaner()
    if cleaner.clean_content(list(SIGMA)) != SIGMA:
        raise RuntimeError("the cleaner alters the line alphabet without an allow-list; alphabet is not neutral")
    _mkroot(fx)
    try:
        snaps = {}
        for t in enumx.shard(contents if contents is not None else _contents(L), unit["shard"], unit["of"]):
            lines = list(t)
            for path in paths_for(len(lines)):
                tr = PATH_TRIPLE[path]
                if tr not in snaps:
                    _register(fx, tr, flts)
                    snaps[tr] = _snapshot_tables(fx)
                _restore_tables(fx, snaps[tr])
                out, v = _judge_path(fx, path, lines, flts, cleaner)
                res.evals += 1
                if out is not None:
                    if 0 < len(out) < len(lines):
                        res.nontrivial += 1
                    res.outcomes.add("%s:%d:%d" % (path, len(lines), len(out)))
                if v:
                    _report(res, v[0], {"part": "content", "path": path, "lines": lines, "filters": flts}, v[1], v[2], v[3])
        res.samples.append({"part": "content", "path": "archive-load", "lines": ["xa", "c", "a"], "filters": flts})
    finally:
        _reset_tables(fx)
        _rmroot(fx)


def host_contents(tier):
    L = BOUNDS[tier]["host_max_lines"]
    return [list(t) for t in _contents(L)] + [list(SIGMA), list(SIGMA) + list(reversed(SIGMA))]


HOST_MULTI_SETS = [[["a", 1, "point"]], [["a", 1, "impl"], ["b", 2, "point"], ["-a", None, "point"]],
                   [["-a", 2, "point"], ["[a]", 1, "impl"]]]


def _explore_host_cases(fx, res, paths, flts, contents):
    for path in paths:
        _register(fx, PATH_TRIPLE[path], flts)
        snap = _snapshot_tables(fx)
        for lines in contents:
            _restore_tables(fx, snap)
            out, v = _judge_path(fx, path, lines, flts, None)
            res.evals += 1
            res.stat("real_grep_cases")
            if out is not None:
                if 0 < len(out) < len(lines):
                    res.nontrivial += 1
                res.outcomes.add("%s:%d:%d" % (path, min(len(lines), 6), min(len(out), 6)))
            if v:
                _report(res, v[0], {"part": "content", "path": path, "lines": lines, "filters": flts}, v[1], v[2], v[3])


def explore_host(unit, tier, res):
    fx = _fx()
    _mkroot(fx)
    try:
        if "multi" in unit:
            flts = HOST_MULTI_SETS[unit["set"]]
            L = 2 if tier == "quick" else 3
            contents = list(enumx.shard((list(t) for t in _contents(L)), unit["shard"], unit["of"]))
            _explore_host_cases(fx, res, [unit["multi"]], flts, contents)
            res.samples.append({"part": "content", "path": unit["multi"], "lines": ["a", "c"], "filters": flts})
        else:
            si = unit["set"]
            flts = with_via(host_filter_sets(tier)[si], si)
            contents = list(enumx.shard(host_contents(tier), unit["shard"], unit["of"]))
            _explore_host_cases(fx, res, ["host-file", "host-cmd"], flts, contents)
            res.samples.append({"part": "content", "path": "host-cmd", "lines": ["-a", "c", "xa"], "filters": flts})
    finally:
        _reset_tables(fx)
        _rmroot(fx)


# redaction x filtering: the customer's exclude patterns remove lines of a filtered spec during the same cleaning pass.
# Line alphabet: for each of the filters a / b a line the redaction leaves and one it removes, a line with both filters
# (kept / removed), a removed line without a filter, a line without a filter, the empty line.
SIGMA_R = ["a", "b", "ab", "ax", "bx", "abx", "x", "c", ""]
REDACT_CONFS = [{"plain": ["x"]}, {"regex": ["[ab]x$"]}, {"plain": ["x", "b"]}, {"regex": ["^b", "a.*x"]}]
REDACT_SETS = [[["a", 1, "point"]], [["a", 2, "impl"]], [["a", 1, "point"], ["b", 1, "parser"]],
               [["a", 2, "parser"], ["b", 1, "impl"]], [["a", 1, "impl"], ["b", 2, "point"]], [["a", None, "point"]],
               [["ab", 1, "point"], ["a", 2, "parser"]]]
REDACT_CLEANER_PATHS = ("cleaner", "cleaner-twice", "cleaner-noredact")


def redact_combos(tier, host=False):
    combos = [(si, ci) for si in range(len(REDACT_SETS)) for ci in range(len(REDACT_CONFS))]
    if host and tier == "quick":
        combos = [(0, 0), (2, 1), (3, 2), (4, 3), (1, 0), (6, 1), (5, 2), (0, 3)]
    return combos


def _redact_alphabet_guard():
    """Every configuration removes a line that contains a filter and leaves one (otherwise the dimension is empty), and
    differs from every other configuration on the alphabet."""
    seen = {}
    for conf in REDACT_CONFS:
        gone = tuple(l for l in SIGMA_R if _is_redacted(l, conf))
        if not any("a" in l for l in gone) or not any("a" in l and l not in gone for l in SIGMA_R) or "" in gone:
            raise RuntimeError("redaction configuration %r is vacuous on the line alphabet" % (conf,))
        if gone in seen:
            raise RuntimeError("redaction configurations %r and %r coincide on the line alphabet" % (conf, seen[gone]))
        seen[gone] = conf


def explore_redact(unit, tier, res):
    """Every content of <= L lines over SIGMA_R under one (budgeted filter set, exclude-pattern configuration): through
    the cleaner's allow-list with a Cleaner built from that configuration (once, twice on one long-lived cleaner, and
    with no_redact=True, where nothing is removed), or - host units - through real host collections (grep pre-filter;
    write() with that cleaner, twice; a second collection).  Cleaned contents are judged by the SAME declarative clauses
    against the lines the redaction leaves."""
    fx = _fx()
    _redact_alphabet_guard()
    flts = REDACT_SETS[unit["set"]]
    conf = REDACT_CONFS[unit["conf"]]
    host = bool(unit.get("host"))
    if host:
        L = BOUNDS[tier]["redact_host_max_lines"]
        paths = ("host-file", "host-cmd")
    else:
        L = BOUNDS[tier]["redact_max_lines"]
        paths = REDACT_CLEANER_PATHS
    flt_keys = [f for f, _, _ in _flat(flts)]
    _mkroot(fx)
    try:
        with _redaction(conf):
            cleaner = _new_cleaner()
            snaps = {}
            for t in enumx.shard(enumx.strings(SIGMA_R, L), unit["shard"], unit["of"]):
                lines = list(t)
                hit = any(_is_redacted(l, conf) and any(f in l for f in flt_keys) for l in lines)
                for path in paths:
                    if path in ("cleaner-twice", "cleaner-noredact") and len(lines) > TWICE_MAX_LINES:
                        continue
                    tr = PATH_TRIPLE[path]
                    if tr not in snaps:
                        _register(fx, tr, flts)
                        snaps[tr] = _snapshot_tables(fx)
                    _restore_tables(fx, snaps[tr])
                    out, v = _judge_path(fx, path, lines, flts, cleaner)
                    res.evals += 1
                    if host:
                        res.stat("real_grep_cases")
                    if out is not None:
                        # non-trivial: the redaction removed a line that matches a filter and something was kept
                        if hit and out and path != "cleaner-noredact":
                            res.nontrivial += 1
                        res.outcomes.add("redact:%s:%s:%d" % (path, "hit" if hit else "nohit", min(len(out), 4)))
                    if v:
                        _report(res, v[0], {"part": "content", "path": path, "lines": lines, "filters": flts,
                                            "redact": conf}, v[1], v[2], v[3])
        res.samples.append({"part": "content", "path": paths[0], "lines": ["a", "ax"], "filters": flts, "redact": conf})
    finally:
        _reset_tables(fx)
        _rmroot(fx)


# glue: filter strings with characters that mean something to a shell, to grep, to %-formatting or to the
# newline-joined pattern list; judged on their own small line alphabet through all paths
GLUE_FILTERS = ["\\", "a b", "*", "%s", "\"", "'", "^a", "a$", "(a", "a\nb"]
GLUE_LINES = ["\\", "a b", "*", "%s", "'\"", "a\\b", "^a", "a$", "(a", "a", "b", "ab"]


def glue_sets():
    sets = [[[f, None, VIAS[k % 3]]] for k, f in enumerate(GLUE_FILTERS)]
    sets.append([[f, None, VIAS[k % 3]] for k, f in enumerate(GLUE_FILTERS) if "\n" not in f])
    sets.append([["\\", 1, "point"], ["*", 1, "impl"]])
    return sets


# white space: filters with a leading / trailing blank or tab, lines with trailing blanks / tabs, a line of blanks only
# (non-empty in the statement's sense: if kept it must contain a filter), a CRLF line.  Kept lines are compared with the
# original lines exactly (the sub-sequence clause compares strings), so a path that strips or pads a line is caught.
BLANK_FILTERS = ["a ", " a", "a\t", "\ta", " ", "= "]
BLANK_LINES = ["a ", " a", "a", "a\t", "\ta", "x a ", "k = ", "k = v", "  ", "\t", "a\r", "c ", "c"]


def blank_sets():
    sets = [[[f, None, VIAS[k % 3]]] for k, f in enumerate(BLANK_FILTERS)]
    sets.append([["a ", 1, "point"]])
    sets.append([["a ", 1, "impl"], [" a", 2, "point"]])
    sets.append([[f, None, VIAS[k % 3]] for k, f in enumerate(BLANK_FILTERS)])
    return sets


def explore_glue(res, kind="glue"):
    fx = _fx()
    cleaner = _new_cleaner()
    if kind == "glue":
        alphabet, sets = GLUE_LINES, glue_sets()
        contents = [[l] for l in alphabet] + [list(alphabet), []]
        plan = [(IN_PROCESS + ("host-file", "host-cmd"), contents)]
    else:
        alphabet, sets = BLANK_LINES, blank_sets()
        short = [[l] for l in alphabet] + [list(alphabet), list(reversed(alphabet))]
        plan = [(IN_PROCESS + ("archive-stream", "archive-load-twice"), [list(t) for t in enumx.strings(alphabet, 2)] + short[-2:]),
                (("host-file", "host-cmd"), short)]
    if cleaner.clean_content(list(alphabet)) != alphabet:
        raise RuntimeError("the cleaner alters the %s line alphabet without an allow-list" % kind)
    _mkroot(fx)
    try:
        for flts in sets:
            for paths, contents in plan:
                for path in paths:
                    _register(fx, PATH_TRIPLE[path], flts)
                    snap = _snapshot_tables(fx)
                    for lines in contents:
                        _restore_tables(fx, snap)
                        out, v = _judge_path(fx, path, lines, flts, cleaner)
                        res.evals += 1
                        if path.startswith("host"):
                            res.stat("real_grep_cases")
                        if out is not None:
                            if 0 < len(out) < len(lines):
                                res.nontrivial += 1
                            res.outcomes.add("%s:%s:%d" % (kind, path, min(len(out), 3)))
                        if v:
                            _report(res, v[0], {"part": "content", "path": path, "lines": lines, "filters": flts}, v[1], v[2], v[3])
    finally:
        _reset_tables(fx)
        _rmroot(fx)


# filtering switched off (INSIGHTS_FILTERS_ENABLED=False): "no datasources will be filtered even if filters are
# defined for them" - and a filterable spec without filters is collected
CL_DISABLED = "disabled:nothing-is-filtered"


def check_disabled(case):
    """case = {"part":"disabled","path":..,"lines":[..],"filters":[..]}; the gate is switched off before anything is
    registered or looked up (as the environment variable does at import) and switched on again afterwards."""
    fx = _fx()
    _mkroot(fx)
    old = fx.filters.ENABLED
    try:
        _reset_tables(fx)
        fx.filters.ENABLED = False
        path, lines = case["path"], list(case["lines"])
        _register(fx, PATH_TRIPLE[path], case["filters"])
        try:
            if path in ("archive-load", "apply"):
                stages = [s for s in _observe(fx, path, lines, None, case["filters"]) if s[0] == "output"]
            else:
                _write_input(fx, "in_file" if path == "host-file" else "in_cmd", lines)
                point = fx.triples[path]["point"]
                b = _host_broker(fx)
                fx.dr.run(fx.dr.get_dependency_graph(point), b)
                if point not in b:
                    why = sorted(set(repr(e)[:90].replace(fx.root, "<root>") for v in b.exceptions.values() for e in v))
                    stages = [("content", lines, [], "absent: %s" % why)]
                else:
                    stages = _provider_stages(fx, b[point], lines)
        except Exception as ex:
            return [(CL_EXC, "no exception", "%s: %s" % (type(ex).__name__, str(ex)[:200]), {"path": "disabled"})]
        want = [l for l in lines if l]
        for stage, src, out, note in stages:
            if [l for l in out if l] != want:
                return [(CL_DISABLED, {"non_empty_lines": want}, {"stage": stage, "output": out, "note": note},
                         {"path": "disabled:" + path})]
        return []
    finally:
        fx.filters.ENABLED = old
        _reset_tables(fx)
        _rmroot(fx)


# ---------------------------------------------------------------------------------------------
# no filter registered -> not collected on a host
# ---------------------------------------------------------------------------------------------
def _nofilter_run(fx, factory):
    point, impl = fx.comp["NF_" + factory], fx.comp["INF_" + factory]
    b = _host_broker(fx)
    fx.dr.run(fx.dr.get_dependency_graph(point), b)
    recorded = sorted(set(type(e).__name__ for e in b.exceptions.get(impl, [])))
    try:
        impl(b)
        direct = "returned"
    except Exception as ex:
        direct = type(ex).__name__
    return {"point_in_broker": point in b, "implementation_in_broker": impl in b,
            "recorded_for_implementation": recorded, "direct_call": direct}


def check_nofilter(case):
    """case = {"part":"nofilter","factory":name,"other_specs_filtered":bool}"""
    fx = _fx()
    _mkroot(fx)
    try:
        _reset_tables(fx)
        _write_input(fx, "in_file", ["a", "c"])
        _write_input(fx, "in_cmd", ["a", "c"])
        if case.get("other_specs_filtered"):
            fx.filters.add_filter(fx.comp["S"], "a")
            fx.filters.add_filter(fx.comp["CMD"], "a")
            for f in NF_FACTORIES:
                if f != case["factory"]:
                    fx.filters.add_filter(fx.comp["NF_" + f], "a")
        obs = _nofilter_run(fx, case["factory"])
        # where the engine records the exception is C03's business: reported, not compared
        exp = {"point_in_broker": False, "implementation_in_broker": False, "direct_call": "NoFilterException"}
        out = []
        if any(obs[k] != exp[k] for k in exp):
            out.append((CL_NOFILTER, exp, obs, {"factory": case["factory"]}))
        # control (not an oracle clause): with one filter, registered on fresh tables, the very same run collects
        # the spec - so the absence above is due to the missing filter and to nothing else
        _reset_tables(fx)
        fx.filters.add_filter(fx.comp["NF_" + case["factory"]], "a")
        case["_control_collected"] = _nofilter_run(fx, case["factory"])["point_in_broker"]
        return out
    finally:
        _reset_tables(fx)
        _rmroot(fx)


# ---------------------------------------------------------------------------------------------
# judge self-check (keeps the oracle honest; a failure is a harness error, never a verdict)
# ---------------------------------------------------------------------------------------------
def judge_selfcheck(res):
    sets = [fs for fs in filter_sets("quick")]
    n = 0
    rejected = collections.Counter()
    for fs in sets:
        flt = dict((f, b) for f, b in fs)
        for t in _contents(3):
            lines = list(t)
            good = ref_bottom_up(lines, flt)
            if judge(lines, good, flt, True) is not None:
                raise RuntimeError("judge rejects the documented algorithm: %r %r -> %r" % (lines, flt, good))
            n += 1
            allm = [l for l in lines if any(f in l for f in flt)]
            if judge(lines, allm, flt, False) is not None or judge(lines, allm, flt, True) is not None:
                raise RuntimeError("judge rejects 'all matching lines': %r %r" % (lines, flt))
            # known-wrong outputs
            top = list(reversed(ref_bottom_up(list(reversed(lines)), flt)))
            for name, bad in (("top-down", top), ("reversed", list(reversed(allm))), ("duplicated", allm + allm[-1:]),
                              ("everything", list(lines)), ("nothing", [])):
                if judge(lines, bad, flt, True) is not None:
                    rejected[name] += 1
    for name in ("top-down", "reversed", "duplicated", "everything", "nothing"):
        if not rejected[name]:
            raise RuntimeError("judge never rejects the %s output" % name)
    res.stat("judge_selfcheck_accepts", n)
    res.stat("judge_selfcheck_rejects", sum(rejected.values()))


# ---------------------------------------------------------------------------------------------
# driver protocol
# ---------------------------------------------------------------------------------------------
def units(tier, seed):
    us = [{"part": "judge-selfcheck"}, {"part": "nofilter"}, {"part": "collect-history"}, {"part": "glue"}, {"part": "blank"},
          {"part": "disabled"}]
    if tier == "quick":
        us.append({"part": "history", "name": "ab_1_default", "patterns": ["a", "b"], "budgets": [1, None]})
        us.append({"part": "history", "name": "a_1_2_default", "patterns": ["a"], "budgets": [1, 2, None],
                   "count_only_with_budget": 2})
    else:
        us.append({"part": "history", "name": "ab_1_2_default", "patterns": ["a", "b"], "budgets": [1, 2, None]})
    # two filterable points under one parser + combiner: a third graph, explored to closure separately
    if tier == "quick":
        us.append({"part": "history", "fixture": "multi", "name": "multi_ab_default", "patterns": ["a", "b"],
                   "budgets": [None]})
        us.append({"part": "history", "fixture": "multi", "name": "multi_points_ab_1_default", "patterns": ["a", "b"],
                   "budgets": [1, None], "add": ["SA", "SB", "PAB", "CAB"], "count_only_with_budget": 1})
    else:
        us.append({"part": "history", "fixture": "multi", "name": "multi_ab_1_2_default", "patterns": ["a", "b"],
                   "budgets": [1, 2, None]})
    # nested specs (first_of members): a second, small graph explored to closure on the full alphabet in both tiers
    us.append({"part": "history", "fixture": "nested", "name": "nested_ab_1_2_default", "patterns": ["a", "b"],
               "budgets": [1, 2, None]})
    # further small shapes (three implementations, two-level nesting, combiner over two parsers, combiner on a point and a
    # parser, parser over three points, helper datasource on top of a point / parser on an implementation)
    for sh in sorted(SHAPES):
        if tier == "quick":
            us.append({"part": "history", "fixture": sh, "name": "%s_a_1_default" % sh, "patterns": ["a"], "budgets": [1, None]})
        else:
            us.append({"part": "history", "fixture": sh, "name": "%s_a_1_2_default" % sh, "patterns": ["a"],
                       "budgets": [1, 2, None]})
            us.append({"part": "history", "fixture": sh, "name": "%s_ab_default" % sh, "patterns": ["a", "b"],
                       "budgets": [None], "count_only_with_pattern": "b"})
    # boundary / typed arguments and the dumps-loads round trip as extra events in every state of a small closure of
    # each graph (only the extra transitions are counted: the plain ones are covered by the units above)
    for g in ("main", "multi", "nested"):
        us.append({"part": "history", "fixture": g, "name": "%s_extras" % g, "patterns": ["a"], "budgets": [None],
                   "extras": True, "count_only": "extras"})
    k = 2 if tier == "quick" else 4
    for si in range(len(filter_sets(tier))):
        for j in range(k):
            us.append({"part": "content", "set": si, "shard": j, "of": k})
    kx = 1
    for xi in range(len(extra_filter_lists(tier))):
        for j in range(kx):
            us.append({"part": "content", "xset": xi, "shard": j, "of": kx})
    kh = 1 if tier == "quick" else 6
    for si in range(len(host_filter_sets(tier))):
        for j in range(kh):
            us.append({"part": "host", "set": si, "shard": j, "of": kh})
    kr = 1 if tier == "quick" else 4
    for si, ci in redact_combos(tier):
        for j in range(kr):
            us.append({"part": "redact", "set": si, "conf": ci, "shard": j, "of": kr})
    for si, ci in redact_combos(tier, host=True):
        for j in range(kr):
            us.append({"part": "redact", "set": si, "conf": ci, "host": True, "shard": j, "of": kr})
    for si in range(len(HUGE_SETS)):
        us.append({"part": "huge", "set": si})
    for si in (1, 2):
        us.append({"part": "huge", "set": si, "host": True})
    km = 1 if tier == "quick" else 4
    for pth in sorted(HOST_MULTI):
        for si in range(len(HOST_MULTI_SETS)):
            for j in range(km):
                us.append({"part": "host", "multi": pth, "set": si, "shard": j, "of": km})
    return us


def unit_weight(u):
    if u["part"] == "history":
        return 100 if len(u["patterns"]) * len(u["budgets"]) > 4 else 50
    return {"host": 3, "content": 2, "redact": 3}.get(u["part"], 1)


# ---------------------------------------------------------------------------------------------
# refused once, registered later: the same look-up/registration interleaving seen through a host collection
# ---------------------------------------------------------------------------------------------
COLLECT_CASES = [("S", t) for t in ("S", "I1", "P", "C", "P2")] + [("S3", t) for t in ("S3", "FO", "P3F")]


def check_collect_history(case):
    """case = {"part":"collect-history","point":"S"|"S3","register_on":name,"lines":[..]}: a host collection of the
    point with no filter (refused; builds a provider, i.e. looks the filters up on the datasource that reads the
    file - for S3 the nested member), then add_filter(register_on, "a"), then the same collection again: the
    spec must now be collected and its content must satisfy the content clauses for the filter set {"a"}."""
    from insights.core.exceptions import ContentException, CalledProcessError
    fx = _fx()
    _mkroot(fx)
    try:
        _reset_tables(fx)
        lines = list(case["lines"])
        _write_input(fx, "in_file", lines)
        point = fx.comp[case["point"]]
        feats = {"point": case["point"], "register_on": case["register_on"]}
        b = _host_broker(fx)
        fx.dr.run(fx.dr.get_dependency_graph(point), b)
        if point in b:
            return [(CL_NOFILTER, {"point_in_broker": False}, {"point_in_broker": True}, feats)]
        fx.filters.add_filter(fx.comp[case["register_on"]], "a")
        b = _host_broker(fx)
        fx.dr.run(fx.dr.get_dependency_graph(point), b)
        exp = {"point_in_broker": True, "content": "the lines containing 'a'"}
        if point not in b:
            why = sorted(set(repr(e)[:90] for v in b.exceptions.values() for e in v))
            return [(CL_COLLECT, exp, {"point_in_broker": False, "exceptions": [w.replace(fx.root, "<root>") for w in why]}, feats)]
        try:
            content = list(b[point].content)
        except (ContentException, CalledProcessError) as ex:
            content = []
        v = judge(lines, content, {"a": None}, True)
        if v:
            return [(CL_COLLECT, exp, {"point_in_broker": True, "content": content, "clause": v[0]}, feats)]
        return []
    finally:
        _reset_tables(fx)
        _rmroot(fx)


def run_unit(unit, tier):
    res = Result()
    part = unit["part"]
    if part == "judge-selfcheck":
        judge_selfcheck(res)
    elif part == "history":
        explore_histories(unit, res)
    elif part == "content":
        explore_content(unit, tier, res)
    elif part == "host":
        explore_host(unit, tier, res)
    elif part == "nofilter":
        for f in NF_FACTORIES:
            for other in (False, True):
                case = {"part": "nofilter", "factory": f, "other_specs_filtered": other}
                vs = check_nofilter(case)
                control = case.pop("_control_collected")
                res.case(nontrivial=bool(control), outcome="nofilter:%s:%s" % (bool(vs), control),
                         sample=case if f == "glob_file" and other else None)
                for c, e, o, ft in vs:
                    res.violation(c, case, e, o, ft)
    elif part == "glue":
        explore_glue(res)
    elif part == "blank":
        explore_glue(res, "blank")
    elif part == "huge":
        explore_huge(unit, tier, res)
    elif part == "redact":
        explore_redact(unit, tier, res)
    elif part == "disabled":
        sets = [[], [["a", 1, "point"]], [["a", None, "impl"], ["b", 1, "parser"]]]
        for flts in sets:
            for path in ("archive-load", "apply", "host-file", "host-cmd"):
                for t in _contents(2):
                    case = {"part": "disabled", "path": path, "lines": list(t), "filters": flts}
                    vs = check_disabled(case)
                    res.case(nontrivial=bool(flts) and any(l and "a" not in l for l in t),
                             outcome="disabled:%s:%s" % (path, bool(vs)),
                             sample=case if path == "host-cmd" and len(t) == 2 and flts else None)
                    for c, e, o, ft in vs:
                        res.violation(c, case, e, o, ft)
    elif part == "collect-history":
        for point, tgt in COLLECT_CASES:
            for lines in (["a", "c", "xa"], ["c", "-a", ""]):
                case = {"part": "collect-history", "point": point, "register_on": tgt, "lines": lines}
                vs = check_collect_history(case)
                res.case(nontrivial=True, outcome="collect:%s:%s" % (point, bool(vs)),
                         sample=case if tgt == "P3F" and lines[0] == "a" else None)
                for c, e, o, ft in vs:
                    res.violation(c, case, e, o, ft)
    else:
        raise ValueError(part)
    return res


def replay(case):
    part = case.get("part")
    if part == "history":
        vs = check_history(case)
    elif part == "content":
        vs = check_content(case)
    elif part == "nofilter":
        case = dict(case)
        vs = check_nofilter(case)
        case.pop("_control_collected", None)
    elif part == "collect-history":
        vs = check_collect_history(case)
    elif part == "disabled":
        vs = check_disabled(case)
    else:
        raise ValueError(part)
    return [{"clause": c, "case": case, "expected": e, "observed": o, "features": f} for c, e, o, f in vs]


TECHNIQUE = ("explicit-state BFS to closure over the real add_filter/get_filters tables against a cache-free reference "
             "model; bounded exhaustive enumeration of contents x budgeted filter sets through the four filtering code "
             "paths (real grep -F on the host path) against a declarative oracle")
LEVEL_TEXT = ("Histories: the reachable (FILTERS,_CACHE) state space of a fixed graph (registry point, two implementations, "
              "parsers, a combiner, non-filterable and raw targets) and, separately, of a nested graph (registry point "
              "implemented by first_of over two datasources outside any SpecSet, a parser) and of a graph with two filterable "
              "points under one parser and a combiner, is explored to closure with the "
              "real functions as the transition relation; every look-up in every reachable state is compared with a cache-free reference (union "
              "semantics), and every state's shortest history is re-executed from empty tables; the same refused-then-registered "
              "interleaving is also observed through real host collections (8 point x registration-target pairs); six further "
              "generated graph shapes are closed with a small alphabet; typed / refused arguments and a dumps-loads round trip "
              "are extra events of small closures; the state is every module-level container of the filters module, snapshotted "
              "generically. Contents: every content of "
              "<= 4 (quick) / <= 5 (thorough) lines over a 9-symbol line alphabet (regex metacharacters, leading dash, "
              "overlapping and empty lines) x 46 / 153 budgeted filter sets through post-filter on load, the cleaner's "
              "allow-list and apply_filters, and <= 2 / <= 3 lines x 16 / 22 sets through real host collection "
              "(grep -F, stream(), write() twice, a second collection); registration order / place / duplicate / set-order "
              "descriptors, multi-file factories, glue characters and the disabled gate on short contents; filtering crossed with the customer's "
              "exclude patterns (7 budgeted sets x 4 plain / regex configurations x contents <= 4 / <= 5 lines through the cleaner, "
              "<= 2 / <= 3 lines through host collections), the cleaned content judged against the lines the redaction leaves. "
              "'No counterexample within the bound', nothing more.")
LEVEL_NOTE = ("Trusted: the fixture's declared graph (checked against the dr registries), the 40-line reference model "
              "(cross-checked against a second formulation transcribed from the statement on every discovered state), the "
              "declarative content judge (validated against the documented algorithm and five known-wrong outputs on every "
              "run). Budgets across components: weaker reading (any contributing component's "
              "budget; the smallest one for the content clauses). Redaction: the statement does not mention it; the cleaner documents "
              "it as a must-be-done step ordered before the filter, so on the cleaning paths the statement's 'original lines' are "
              "read as the lines the redaction leaves (that a line with an exclude pattern IS removed is C08's claim, here only the "
              "reference of what is left). Nine graph shapes (three hand-written, six generated), not all "
              "shapes; container factories, first_file / command_with_args content, runtime toggling of the ENABLED gate with a "
              "warm cache and loads() of a document that differs from dumps() are not covered.")
