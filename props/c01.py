"""C01 - components run at most once, only after their dependencies were attempted; seeds untouched.

All DAG shapes up to N nodes x edge kinds x outcome/enabled/seeded deviations x target forms,
and for each of them EVERY engine tie-break (every permutation of forced hashes of the node
objects, i.e. every iteration order of the sets inside toposort) is executed with the real
dr.run and checked on the merged event log (attempt / invoke / observer turn).
"""
import itertools

from mc.result import Result
from mc import enumx

ID = "C01"
LEVEL = "model_checking"
TECHNIQUE = ("stateless exhaustive exploration of the real engine: all DAGs up to N nodes x all engine tie-breaks "
             "(forced-hash permutations enumerate every set iteration order inside toposort), invariant checked on every execution's event log")
LEVEL_TEXT = ("Every acyclic graph with <= 3 (quick) / <= 4 (thorough) nodes over edge kinds {none, required, group-1, group-2, optional}, "
              "<= 2 deviations of outcome / enabled / pre-seeded, every target form (single node, pair, explicit dict, component type) is run "
              "under every order the engine may choose among independent components; at-most-once, dependencies-attempted-first, seed "
              "preservation and the dependency closure are checked on every execution. The same through the other public engines "
              "(run_incremental / run_all with a dict, a list, a set of targets and the caller's broker), two-step histories in one process, "
              "pre-seeded values that are None / 0, and every typed graph (datasources, parsers, combiners, registry points with prio -1/0/1) "
              "with <= 3 (thorough 4) nodes. Dependencies declared on the component TYPE (class-level requires - plain and at-least-one - "
              "and optional of a ComponentType subclass, shared by all nodes with the same class-level declaration) are one more family of "
              "edge kinds: every graph with <= 3 nodes over the 8 kinds that has >= 1 type-level edge (quick: no deviation, n = 2 with <= 2; "
              "thorough <= 2 deviations) and every 4-node graph over {none, required, type-level required} (thorough: plus type-level "
              "at-least-one / optional), through node / pair / dict / type / the ad-hoc type itself / incremental / run_all targets. "
              "Complete within the bounds; schedules are owned, not sampled.")
LEVEL_NOTE = ("Tie-breaks are owned through forced __hash__ values of the component objects (CPython iterates small sets by slot = hash); "
              "verified per run by the self-check that all N! permutations yield the expected number of distinct orders on an edgeless graph. "
              "Bounded by N <= 4.")
RULE = ("DAG shapes x deviations x targets x hash permutations; an execution is non-trivial when its graph has >= 1 edge and >= 2 nodes "
        "take part; states = distinct (case, attempt-order prefix) nodes of the execution trees, transitions = component turns executed, "
        "traces = complete dr.run executions; part 'typelevel': shapes over EDGE + {treq, tg, topt} (dependency declared as class "
        "attribute requires / optional of the component's type) with >= 1 type-level edge, x deviations x targets x hash permutations")
ASSUMPTIONS = ["CPython set iteration order for <= 4 elements with distinct hashes < 8 is slot order (self-checked every run)"]
BOUNDS = {"quick": {"max_nodes": 3, "max_dev": 2, "plus": "all 4-node DAGs with required edges only, <= 1 deviation",
                    "typelevel": "n=2: 8 edge kinds, <= 2 deviations; n=3: 8 edge kinds, >= 1 type-level edge, no deviation; "
                                 "n=4: kinds {none, req, treq}, >= 1 type-level edge, no deviation"},
          "thorough": {"max_nodes": 4, "max_dev_n3": 2, "max_dev_n4": 1,
                       "typelevel": "n<=3: 8 edge kinds, >= 1 type-level edge, <= 2 deviations; "
                                    "n=4: kinds {none, req, treq, tg, topt}, >= 1 type-level edge, no deviation"}}
CAP_S = {"quick": 300, "thorough": 5400}
FRESH_PROCESS_PER_UNIT = True     # 58-819 units: a forked child per unit costs nothing and keeps module-level state of the engine
                                  # (memo tables a change may add) from growing across units - see mc/runner.py


EDGE = ["none", "req", "g1", "g2", "opt"]
ALTS = ["none", "skip", "error", "disabled", "seed", "seednone", "seedzero"]
# dependencies declared on the component TYPE (class attributes of a ComponentType subclass): required, member of ONE
# class-level at-least-one group, optional. "All components decorated with this type implicitly require / depend on" them,
# so they are declared dependencies of the component like the ones in the decorator call.
TYPE_EDGE = ["treq", "tg", "topt"]


def shapes(n, edge_kinds=None):
    pairs = [(j, i) for i in range(n) for j in range(i)]
    for kinds in itertools.product(edge_kinds or EDGE, repeat=len(pairs)):
        yield dict((p, k) for p, k in zip(pairs, kinds) if k != "none")


def shape_to_nodes(n, shape, devs, t="plain"):
    nodes = []
    for i in range(n):
        decl = [j for j in range(i) if shape.get((j, i)) == "req"]
        g1 = [j for j in range(i) if shape.get((j, i)) == "g1"]
        g2 = [j for j in range(i) if shape.get((j, i)) == "g2"]
        if g1:
            decl.append(g1)
        if g2:
            decl.append(g2)
        nd = {"t": t, "decl": decl, "out": "value"}
        opt = [j for j in range(i) if shape.get((j, i)) == "opt"]
        if opt:
            nd["opt"] = opt
        treq = [j for j in range(i) if shape.get((j, i)) == "treq"]
        tg = [j for j in range(i) if shape.get((j, i)) == "tg"]
        if tg:
            treq.append(tg)
        if treq:
            nd["treq"] = treq
        topt = [j for j in range(i) if shape.get((j, i)) == "topt"]
        if topt:
            nd["topt"] = topt
        d = devs[i]
        if d == "disabled":
            nd["en"] = False
        elif d == "seed":
            nd["seed"] = True
        elif d == "seednone":
            nd["seed"] = "none"
        elif d == "seedzero":
            nd["seed"] = "zero"              # a supplied value that is falsy (0) is still a supplied value
        elif d != "value":
            nd["out"] = d
        nodes.append(nd)
    return nodes


def _can_add_dependency(nodes, i, j):
    """dr.add_dependency(i, j) is defined when i was declared with an at-least-one group (it extends the first one),
    j is not yet a dependency of i, and the new edge keeps the graph acyclic (i not reachable from j)."""
    from harness.graphs import all_deps
    if not any(isinstance(it, list) for it in nodes[i].get("decl", [])):
        return False
    if j in all_deps(nodes[i]):
        return False
    seen, stack = set(), [j]
    while stack:
        x = stack.pop()
        if x == i:
            return False
        if x in seen:
            continue
        seen.add(x)
        stack.extend(all_deps(nodes[x]))
    return True


def targets_for(n, tier):
    ts = [["node", i] for i in range(n)]
    ts += [["pair", i, j] for i in range(n) for j in range(i + 1, n)]
    ts += [["dict"], ["type"]]
    # the other public evaluation entry points: one sub-graph at a time / run_all without a pool, same caller-supplied broker
    ts += [["incr-dict"], ["all-type"]]
    # ... and explicit target LISTS / SETS handed to them together with the caller's broker
    if n >= 2:
        ts += [["incr-pair", i, j] for i in range(n) for j in range(i + 1, n)]
        ts += [["all-pair", 0, n - 1], ["incr-set", n - 2, n - 1]]
    # graphs that are NOT dependency-closed (hand-written dicts, group filters, popped nodes): only the keys take part
    if n == 3:
        ts += [["subdict", list(m)] for k in (1, 2) for m in itertools.combinations(range(n), k)]
        # two-step histories in one process (no deviations): partial incremental evaluation then a full one;
        # evaluate / dr.add_dependency / evaluate again (the pair is filtered per shape in run_unit)
        ts += [["incr-subdict-then-full", list(m)] for k in (1, 2) for m in itertools.combinations(range(n), k)]
        ts += [["run-adddep-run", i, j] for i in range(n) for j in range(n) if i != j]
        # ... the second evaluation through the component GROUP's graph (what dr.run() without arguments evaluates)
        ts += [["run-adddep-rungroup", i, j] for i in range(n) for j in range(n) if i != j]
    if n == 4:
        ts = [["node", 3], ["dict"], ["pair", 2, 3], ["incr-dict"], ["incr-pair", 2, 3], ["incr-pair", 1, 3]]
    return ts


def targets_typelevel(n, nodes):
    """Targets of the 'typelevel' part: every evaluation entry point, plus the ad-hoc type itself (dr.run(<type>) evaluates
    all components decorated with it)."""
    typed = [i for i, nd in enumerate(nodes) if nd.get("treq") or nd.get("topt")]
    if n == 4:
        return ([["node", 3], ["dict"], ["pair", 2, 3], ["incr-dict"], ["incr-pair", 2, 3]]
                + [["typeof", typed[-1]]])
    ts = [["node", i] for i in range(n)]
    ts += [["pair", i, j] for i in range(n) for j in range(i + 1, n)]
    ts += [["dict"], ["type"], ["incr-dict"], ["all-type"]]
    ts += [["incr-pair", i, j] for i in range(n) for j in range(i + 1, n)]
    ts += [["all-pair", 0, n - 1], ["incr-set", n - 2, n - 1]]
    if n == 3:
        ts += [["subdict", list(m)] for k in (1, 2) for m in itertools.combinations(range(n), k)]
    ts += [["typeof", i] for i in typed]
    return ts


def units(tier, seed):
    us = [{"part": "selfcheck"}]
    us += [{"part": "shapes", "n": 1, "chunk": 0, "of": 1}, {"part": "shapes", "n": 2, "chunk": 0, "of": 1}]
    us += [{"part": "shapes", "n": 3, "chunk": c, "of": 25} for c in range(25)]
    # typed graphs (datasources, registry points with a non-zero "prio", parsers, combiners): the engine sorts by the
    # registry points' prio when it splits a graph - no priority may ever reorder a component before its dependency
    us += [{"part": "prio", "n": 2, "chunk": 0, "of": 1}] + [{"part": "prio", "n": 3, "chunk": c, "of": 4} for c in range(4)]
    if tier == "thorough":
        us += [{"part": "prio", "n": 4, "chunk": c, "of": 100} for c in range(100)]
    # dependencies declared on the component TYPE (class-level requires / at-least-one / optional)
    full = EDGE + TYPE_EDGE
    if tier == "quick":
        us += [{"part": "typelevel", "n": 2, "chunk": 0, "of": 1, "edges": full, "max_dev": 2}]
        us += [{"part": "typelevel", "n": 3, "chunk": c, "of": 8, "edges": full, "max_dev": 0} for c in range(8)]
        us += [{"part": "typelevel", "n": 4, "chunk": c, "of": 8, "edges": ["none", "req", "treq"], "max_dev": 0} for c in range(8)]
    else:
        us += [{"part": "typelevel", "n": 2, "chunk": 0, "of": 1, "edges": full, "max_dev": 2}]
        us += [{"part": "typelevel", "n": 3, "chunk": c, "of": 60, "edges": full, "max_dev": 2} for c in range(60)]
        us += [{"part": "typelevel", "n": 4, "chunk": c, "of": 200, "edges": ["none", "req", "treq", "tg", "topt"], "max_dev": 0}
               for c in range(200)]
    if tier == "quick":
        # depth-3 chains need 4 nodes: all required-edge-only 4-node DAGs, <= 1 deviation
        us += [{"part": "shapes", "n": 4, "chunk": c, "of": 8, "edges": ["none", "req"]} for c in range(8)]
    if tier == "thorough":
        us += [{"part": "shapes", "n": 4, "chunk": c, "of": 400} for c in range(400)]
        us += [{"part": "shapes", "n": 3, "chunk": c, "of": 25, "t": "combiner"} for c in range(25)]
    return us


def unit_weight(u):
    return u.get("n", 0)


def check_case(case, res=None):
    """case = {"nodes": [...], "target": [...], "perm": [...]|None}. perm None = all permutations."""
    from insights.core import dr
    from harness import graphs as G
    desc = {"nodes": case["nodes"]}
    n = len(desc["nodes"])
    perms = [case["perm"]] if case.get("perm") is not None else list(itertools.permutations(range(n)))
    vio = []
    prefixes = set()
    orders = set()
    turns_total = 0
    registry_changes = []
    for perm in perms:
        g = G.Graph(desc, hashes=perm, name_order=list(range(n)))
        try:
            tgt = case["target"]
            if tgt[0] == "node":
                comps = g.nodes[tgt[1]]
                tix = [tgt[1]]
            elif tgt[0] in ("pair", "incr-pair", "all-pair"):
                comps = [g.nodes[tgt[1]], g.nodes[tgt[2]]]
                tix = [tgt[1], tgt[2]]
            elif tgt[0] == "incr-set":
                comps = set([g.nodes[tgt[1]], g.nodes[tgt[2]]])
                tix = [tgt[1], tgt[2]]
            elif tgt[0] in ("dict", "incr-dict"):
                comps = g.explicit_graph()
                tix = list(range(n))
            elif tgt[0] in ("subdict", "incr-subdict-then-full"):
                full = g.explicit_graph()
                comps = dict((g.nodes[i], full[g.nodes[i]]) for i in tgt[1])
                tix = None
            elif tgt[0] in ("run-adddep-run", "run-adddep-rungroup"):
                comps = g.explicit_graph()
                tix = list(range(n))
            elif tgt[0] == "typeof":
                comps = g.types[tgt[1]]           # the (ad-hoc) component type of that node: all components decorated with it
                tix = [k for k in range(n) if g.types[k] is comps]
            else:
                comps = G.TYPES[desc["nodes"][0]["t"]]
                tix = list(range(n))
            in_graph = set(tgt[1]) if tix is None else G.closure(desc, tix)
            # (4) dependency closure
            if tgt[0] in ("node", "pair"):
                dg = g.dep_graph(tix)
                got_nodes = sorted(c.idx for c in dg)
                if got_nodes != sorted(in_graph):
                    vio.append(("closure:nodes", sorted(in_graph), got_nodes, perm))
                for c, deps in dg.items():
                    exp = sorted(G.all_deps(desc["nodes"][c.idx]))
                    if sorted(d.idx for d in deps) != exp:
                        vio.append(("closure:edges", {"node": c.idx, "deps": exp}, {"node": c.idx, "deps": sorted(d.idx for d in deps)}, perm))
                order = dr.run_order(dg)
                if sorted(c.idx for c in order) != sorted(in_graph):
                    vio.append(("order:permutation-of-graph", sorted(in_graph), [c.idx for c in order], perm))
            def evaluate(comps, in_graph, engine="run"):
                """One evaluation with a fresh broker; every invariant is judged on its own event log."""
                nonlocal turns_total
                del g.log[:]
                broker = g.make_broker()
                seeds = dict((i, broker[g.nodes[i]]) for i in range(n) if desc["nodes"][i].get("seed"))
                try:
                    if engine == "run":
                        dr.run(comps, broker)
                    elif engine == "incremental":
                        list(dr.run_incremental(comps, broker))     # (which broker object holds the results is not demanded)
                    else:
                        dr.run_all(comps, broker)
                except Exception as ex:
                    vio.append(("run:raises", "dr.%s returns" % engine, repr(ex), perm))
                    return
                log = g.log
                attempts = [ev[1] for ev in log if ev[0] == "attempt"]
                invokes = [ev[1] for ev in log if ev[0] == "invoke"]
                turns = [ev[1] for ev in log if ev[0] == "turn"]
                turns_total += len(turns)
                orders.add(tuple(turns))
                for k in range(1, len(turns) + 1):
                    prefixes.add(tuple(turns[:k]))
                # (1) at most once
                for i in range(n):
                    if attempts.count(i) > 1:
                        vio.append(("once:attempted-at-most-once", {"node": i, "attempts": "<=1"}, {"node": i, "attempts": attempts.count(i)}, perm))
                    if invokes.count(i) > 1:
                        vio.append(("once:invoked-at-most-once", {"node": i, "invocations": "<=1"}, {"node": i, "invocations": invokes.count(i)}, perm))
                    if i in in_graph and turns.count(i) != 1:
                        vio.append(("once:one-turn-per-component", {"node": i, "turns": 1}, {"node": i, "turns": turns.count(i)}, perm))
                    if i not in in_graph and (attempts.count(i) or invokes.count(i)):
                        vio.append(("closure:foreign-component-run", {"node": i, "attempts": 0}, {"node": i, "attempts": attempts.count(i)}, perm))
                # (2) every dependency in the evaluation had its turn before the dependent is attempted
                pos = {}
                for k, ev in enumerate(log):
                    if ev[0] == "turn" and ev[1] not in pos:
                        pos[ev[1]] = k
                for k, ev in enumerate(log):
                    if ev[0] == "attempt":
                        for d in G.all_deps(desc["nodes"][ev[1]]):
                            if d in in_graph and not (d in pos and pos[d] < k):
                                vio.append(("order:dependency-attempted-first", {"node": ev[1], "dep": d, "dep_turn_before": True},
                                            {"log": [list(e[:2]) for e in log if e[0] in ("attempt", "turn")]}, perm))
                # (3) seeds
                for i, sv in seeds.items():
                    c = g.nodes[i]
                    if invokes.count(i) or attempts.count(i):
                        vio.append(("seed:not-recomputed", {"node": i, "invocations": 0}, {"node": i, "invocations": invokes.count(i), "attempts": attempts.count(i)}, perm))
                    if c not in broker or broker[c] is not sv:
                        vio.append(("seed:not-overwritten", {"node": i, "value": "the seed"}, {"node": i, "value": repr(broker.get(c))}, perm))
                    try:
                        broker[c] = "other"
                        vio.append(("seed:overwrite-refused", "KeyError", "assignment accepted", perm))
                    except KeyError:
                        pass

            def registry_intact(when):
                # an evaluation must not rewrite the declared dependencies of any component (they are shared, global state)
                for i in range(n):
                    declared = sorted(G.all_deps(desc["nodes"][i]))
                    now = sorted(d.idx for d in dr.get_dependencies(g.nodes[i]) if getattr(d, "g", None) is g)
                    if now != declared:
                        # not a verdict by itself (the statement is about order and multiplicity): the follow-up
                        # evaluation of the two-step histories decides; counted so that the evidence shows it
                        registry_changes.append((i, when))
                        return False
                return True

            if tgt[0] == "incr-subdict-then-full":
                # history: an incremental evaluation of a partial graph, then a full evaluation in the same process
                try:
                    list(dr.run_incremental(comps, g.make_broker()))
                except Exception as ex:
                    vio.append(("run:raises", "run_incremental returns", repr(ex), perm))
                registry_intact("incremental evaluation of a partial graph")
                evaluate(dict((c, set(dr.get_dependencies(c))) for c in g.nodes), set(range(n)))
            elif tgt[0] in ("run-adddep-run", "run-adddep-rungroup"):
                # history: evaluate, register one more (acyclic) dependency through the public dr.add_dependency, evaluate again
                evaluate(comps, in_graph)
                i2, j2 = tgt[1], tgt[2]
                dr.add_dependency(g.nodes[i2], g.nodes[j2])
                desc2 = {"nodes": [dict(nd) for nd in desc["nodes"]]}
                d2 = [list(it) if isinstance(it, list) else it for it in desc2["nodes"][i2]["decl"]]
                for k, it in enumerate(d2):
                    if isinstance(it, list):
                        d2[k] = it + [j2]
                        break
                desc2["nodes"][i2]["decl"] = d2
                desc_saved = desc["nodes"]
                desc["nodes"] = desc2["nodes"]
                try:
                    if tgt[0] == "run-adddep-rungroup":
                        graph2 = dict((c, set(dr.COMPONENTS[dr.get_group(c)][c])) for c in g.nodes)
                    else:
                        graph2 = dict((c, set(dr.get_dependencies(c))) for c in g.nodes)
                    evaluate(graph2, set(range(n)))
                finally:
                    desc["nodes"] = desc_saved
            else:
                evaluate(comps, in_graph, {"incr-dict": "incremental", "all-type": "all", "incr-pair": "incremental",
                                           "incr-set": "incremental", "all-pair": "all"}.get(tgt[0], "run"))
                registry_intact("evaluation")
        finally:
            g.cleanup()
    if res is not None:
        res.states += len(prefixes)
        res.transitions += turns_total
        res.traces += len(perms)
        res.maxi("max_distinct_engine_orders_for_one_case", len(orders))
        if registry_changes:
            res.stat("evaluations_that_changed_the_declared_dependency_registry", len(registry_changes))
    return vio, len(orders)


def selfcheck():
    """The mechanism itself: for every permutation of forced hashes the iteration order of a set of
    the generated component objects is exactly the order of their hashes (so all N! orders of any
    set the engine builds are reachable). The engine is free to ignore set order (e.g. by sorting)."""
    from harness import graphs as G
    for n in (2, 3, 4):
        desc = {"nodes": [{"t": "plain", "decl": [], "out": "value"} for _ in range(n)]}
        for perm in itertools.permutations(range(n)):
            g = G.Graph(desc, hashes=perm)
            try:
                got = [c.idx for c in set(g.nodes)]
                want = sorted(range(n), key=lambda i: perm[i])
                if got != want:
                    raise RuntimeError("forced hashes do not own set iteration order: %r -> %r" % (perm, got))
            finally:
                g.cleanup()


def G_all_deps(nd):
    from harness.graphs import all_deps
    return all_deps(nd)


def run_unit(unit, tier):
    res = Result()
    if unit["part"] == "selfcheck":
        selfcheck()
        res.stat("selfcheck_forced_hash_orders_ok", 1)
        return res
    n = unit["n"]
    if unit["part"] == "prio":
        from props import c03
        k = -1
        for base in c03.gen_shapes(n):
            rps = [i for i, nd in enumerate(base) if nd["t"] == "rp"]
            if not rps:
                continue
            if n <= 3:
                prios = list(itertools.product((-1, 0, 1), repeat=len(rps)))
            else:                                 # one registry point with a priority
                prios = [tuple(p if j == r else 0 for j in range(len(rps))) for r in range(len(rps)) for p in (-1, 1)]
            for pr in prios:
                k += 1
                if k % unit["of"] != unit["chunk"]:
                    continue
                nodes = [dict(nd, out="value") for nd in base]
                for r, p in zip(rps, pr):
                    if p:
                        nodes[r]["prio"] = p
                for tgt in (["dict"], ["node", n - 1], ["incr-dict"]):
                    case = {"nodes": nodes, "target": tgt, "perm": None}
                    try:
                        vio, norders = check_case(case, res)
                    except Exception:
                        import traceback
                        vio, norders = [("harness:raises", "no exception", traceback.format_exc()[-800:], None)], 0
                    res.case(nontrivial=any(pr) and any(G_all_deps(nd) for nd in nodes), outcome="typed-orders:%d" % norders,
                             sample=case if res.evals % 2000 == 5 else None)
                    for v in vio:
                        res.violation(v[0], {"nodes": nodes, "target": tgt, "perm": list(v[3]) if v[3] is not None else None}, v[1], v[2])
        res.maxi("typed_graph_nodes", n)
        return res
    if unit["part"] == "typelevel":
        k = -1
        for shape in shapes(n, unit["edges"]):
            if not any(kind in TYPE_EDGE for kind in shape.values()):
                continue                              # covered by part "shapes"
            k += 1
            if k % unit["of"] != unit["chunk"]:
                continue
            for devs in enumx.deviations(["value"] * n, [ALTS] * n, unit["max_dev"]):
                nodes = shape_to_nodes(n, shape, devs, "plain")
                for tgt in targets_typelevel(n, nodes):
                    if tgt[0] not in ("node", "pair", "dict", "type", "typeof") and sum(1 for d in devs if d != "value") > 1:
                        continue
                    case = {"nodes": nodes, "target": tgt, "perm": None}
                    try:
                        vio, norders = check_case(case, res)
                    except Exception:
                        import traceback
                        vio, norders = [("harness:raises", "no exception", traceback.format_exc()[-800:], None)], 0
                    res.case(nontrivial=n >= 2, outcome="typelevel-orders:%d" % norders,
                             sample=case if res.evals % 3000 == 7 else None)
                    res.stat("cases_with_a_dependency_declared_on_the_component_type", 1)
                    for v in vio:
                        res.violation(v[0], {"nodes": nodes, "target": tgt, "perm": list(v[3]) if v[3] is not None else None}, v[1], v[2])
        res.maxi("typelevel_graph_nodes", n)
        return res
    t = unit.get("t", "plain")
    if n == 4:
        max_dev = BOUNDS[tier].get("max_dev_n4", 1)
    else:
        max_dev = BOUNDS[tier].get("max_dev", BOUNDS[tier].get("max_dev_n3", 2))
    tlist = targets_for(n, tier)
    for k, shape in enumerate(shapes(n, unit.get("edges"))):
        if k % unit["of"] != unit["chunk"]:
            continue
        for devs in enumx.deviations(["value"] * n, [ALTS] * n, max_dev):
            nodes = shape_to_nodes(n, shape, devs, t)
            for tgt in tlist:
                if tgt[0] in ("subdict", "incr-pair", "all-pair", "incr-set", "incr-dict", "all-type") and sum(1 for d in devs if d != "value") > 1:
                    continue
                if tgt[0] in ("incr-subdict-then-full", "run-adddep-run", "run-adddep-rungroup") and any(d != "value" for d in devs):
                    continue
                if tgt[0] in ("run-adddep-run", "run-adddep-rungroup") and not _can_add_dependency(nodes, tgt[1], tgt[2]):
                    continue
                case = {"nodes": nodes, "target": tgt, "perm": None}
                try:
                    vio, norders = check_case(case, res)
                except Exception:
                    import traceback
                    vio, norders = [("harness:raises", "no exception", traceback.format_exc()[-800:], None)], 0
                res.case(nontrivial=bool(shape) and n >= 2, outcome="orders:%d" % norders,
                         sample=case if res.evals % 3000 == 11 else None)
                for v in vio:
                    res.violation(v[0], {"nodes": nodes, "target": tgt, "perm": list(v[3]) if v[3] is not None else None}, v[1], v[2])
    return res


def replay(case):
    vio, _ = check_case(case)
    return [{"clause": v[0], "case": case, "expected": v[1], "observed": v[2], "features": {}} for v in vio]
