"""Objects with caller-chosen hashes, to *enumerate* the iteration orders of sets and dicts.

CPython iterates a set by slot index; for a small table (8 slots for <= 4 elements, 32 for <= 19 ...)
an element with hash h < table size sits in slot h when there is no collision.  Giving n objects
the hashes of a permutation of range(n) therefore produces every iteration order of a set of those
objects, one per permutation - which is what "every order the engine may choose" and "every
PYTHONHASHSEED" quantify over.  (dicts preserve insertion order and are not affected.)

    order_of(objs)              observed iteration order of set(objs)
    all_orders(factory, n)      yields (perm, objs) for every permutation of forced hashes
"""
import itertools


class HStr(str):
    """A str whose hash is chosen by the harness. Equal to the plain string with the same text,
    so it works as a key wherever the library compares by equality; only set/dict *slot order*
    changes.  (A plain str with the same text has a different hash, so always pass the same HStr
    objects to every container that is supposed to interact.)"""
    __slots__ = ("_h",)

    def __new__(cls, text, h):
        o = str.__new__(cls, text)
        o._h = h
        return o

    def __hash__(self):
        return self._h

    def __eq__(self, other):
        return str.__eq__(self, other)

    def __ne__(self, other):
        return not str.__eq__(self, other)


class HObj(object):
    """Plain object with a forced hash and a readable name."""

    def __init__(self, name, h):
        self.name = name
        self._h = h

    def __hash__(self):
        return self._h

    def __repr__(self):
        return "<%s#%d>" % (self.name, self._h)


def order_of(objs):
    return list(set(objs))


def permutations_of_hashes(n, base=0):
    for perm in itertools.permutations(range(base, base + n)):
        yield perm


def self_test():
    """Every permutation of forced hashes over n <= 5 objects yields a distinct iteration order."""
    for n in (2, 3, 4, 5):
        seen = set()
        for perm in permutations_of_hashes(n):
            objs = [HObj("o%d" % i, perm[i]) for i in range(n)]
            seen.add(tuple(o.name for o in set(objs)))
        assert len(seen) == len(list(itertools.permutations(range(n)))), (n, len(seen))
    return True
