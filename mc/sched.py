"""Deterministic scheduler for real Python threads + iterative preemption bounding.

One thread runs at a time; every other thread waits on its own semaphore (the "baton").  The
running thread reaches *scheduling points*:

  * every `line` event inside a chosen set of code objects (sys.settrace, installed per thread,
    local tracing only for frames of those code objects - all other code runs untraced), and
  * explicit calls of Scheduler.point(label) from harness hooks.

At a point with >= 2 enabled threads the scheduler takes the next choice of the schedule being
replayed (default 0 = keep running the current thread) and hands the baton over if needed.
Enabled threads are listed in canonical order: the running thread first (if still enabled),
then ascending thread ids; so "choice != 0 while the running thread is enabled" is exactly a
preemption.  Blocking (waiting for a future, pool capacity) is modelled explicitly: a blocked
thread is not enabled; "no enabled thread while some thread is unfinished" is a deadlock.

A schedule is the list of choice indices; explore() is the iterative-context-bounding loop:
replay a prefix, default afterwards, branch at every later point while the budget allows.
Divergence while replaying a prefix is a hard error (ReplayDivergence, a BaseException so library
`except Exception` blocks cannot swallow it).
"""
import sys
import threading


class SchedulerAbort(BaseException):
    pass


class ReplayDivergence(SchedulerAbort):
    pass


class Deadlock(SchedulerAbort):
    pass


class HorizonExceeded(SchedulerAbort):
    """The execution did not finish within the harness's horizon of scheduling points (livelock / endless loop)."""
    pass


NEW, READY, BLOCKED, DONE = "new", "ready", "blocked", "done"

# ---- bytecode-granularity points (PEP 669 monitoring; sys.settrace's opcode events are not delivered on 3.12.1) ----
_ACTIVE = None
_INSTRUMENTED = set()
_TOOL = None


def _instr_cb(code, offset):
    s = _ACTIVE
    if s is not None:
        s.point(("op", code.co_name, offset))


def instrument_opcodes(codes):
    """Registers an INSTRUCTION callback for the given code objects (idempotent, process-wide)."""
    global _TOOL
    mon = getattr(sys, "monitoring", None)
    if mon is None:
        return False
    if _TOOL is None:
        _TOOL = 3
        mon.use_tool_id(_TOOL, "verif-sched")
        mon.register_callback(_TOOL, mon.events.INSTRUCTION, _instr_cb)
    for co in codes:
        if co not in _INSTRUMENTED:
            mon.set_local_events(_TOOL, co, mon.events.INSTRUCTION)
            _INSTRUMENTED.add(co)
    return True


class _T(object):
    __slots__ = ("tid", "state", "baton", "thread", "blocked_on", "fn", "result", "exc", "started")

    def __init__(self, tid):
        self.tid = tid
        self.state = READY
        self.baton = threading.Semaphore(0)
        self.thread = None
        self.blocked_on = None
        self.fn = None
        self.result = None
        self.exc = None
        self.started = False


class Scheduler(object):
    def __init__(self, prefix=(), target_codes=(), pool_size=None, max_points=200000, opcode_codes=()):
        self.prefix = list(prefix)
        self.choices = []
        self.points = []            # (n_enabled, running_enabled, label) for every real choice point
        self.targets = set(target_codes)
        # code objects traced at BYTECODE granularity (frame.f_trace_opcodes): the small accessors of shared
        # mutable state, where the interpreter can switch threads between a call and the use of its result
        # inside one source line (e.g. `return iter(self.instances)`)
        self.op_targets = set(opcode_codes)
        self.op_by_monitoring = bool(self.op_targets) and instrument_opcodes(self.op_targets)
        self.threads = {}
        self.current = None
        self.pool_size = pool_size
        self.abort = None
        self.max_points = max_points
        self.n_raw_points = 0
        self.switches = 0
        self._ident = {}

    # ---- registration ------------------------------------------------------------------------
    def register_main(self):
        t = _T(0)
        t.thread = threading.current_thread()
        t.started = True
        self.threads[0] = t
        self._ident[threading.get_ident()] = 0
        self.current = 0
        return t

    def me(self):
        return self._ident.get(threading.get_ident())

    # ---- tracing -------------------------------------------------------------------------------
    def tracer(self, frame, event, arg):
        if event == "call":
            co = frame.f_code
            if co in self.op_targets:
                if self.op_by_monitoring:
                    return None             # points come from the INSTRUCTION callback
                frame.f_trace_opcodes = True
                return self._local_op
            if co in self.targets:
                return self._local
        return None

    def _local(self, frame, event, arg):
        if event == "line":
            self.point(("line", frame.f_code.co_name, frame.f_lineno))
        return self._local

    def _local_op(self, frame, event, arg):
        if event == "opcode":
            self.point(("op", frame.f_code.co_name, frame.f_lasti))
        return self._local_op

    # ---- enabledness ------------------------------------------------------------------------------
    def _running_tasks(self):
        return sum(1 for t in self.threads.values() if t.tid != 0 and t.started and t.state != DONE)

    def _is_enabled(self, t):
        if t.state == DONE:
            return False
        if t.state == BLOCKED:
            f = t.blocked_on
            return f is not None and f.done()
        if t.state == NEW:
            if self.pool_size is not None and self._running_tasks() >= self.pool_size:
                return False
            # FIFO start order, as a thread pool's work queue gives
            for o in self.threads.values():
                if o.state == NEW and o.tid < t.tid:
                    return False
            return True
        return True

    def _enabled(self, me):
        out = []
        if me is not None and self._is_enabled(self.threads[me]):
            out.append(me)
        for tid in sorted(self.threads):
            if tid != me and self._is_enabled(self.threads[tid]):
                out.append(tid)
        return out

    # ---- the scheduling point -------------------------------------------------------------------
    def point(self, label=None):
        if self.abort is not None:
            raise self.abort
        me = self.me()
        if me is None or me != self.current:
            return                      # a thread the scheduler does not own (never happens in the harnesses)
        self.n_raw_points += 1
        if self.n_raw_points > self.max_points:
            self._abort(HorizonExceeded("horizon exceeded: %d points" % self.n_raw_points))
        enabled = self._enabled(me)
        if len(enabled) <= 1:
            return
        self._choose(me, enabled, True, label)

    def _choose(self, me, enabled, running_enabled, label):
        idx = len(self.choices)
        c = self.prefix[idx] if idx < len(self.prefix) else 0
        if c >= len(enabled):
            self._abort(ReplayDivergence("choice %d at point %d but only %d enabled (%r)" % (c, idx, len(enabled), label)))
        self.choices.append(c)
        self.points.append((len(enabled), running_enabled, label))
        nxt = enabled[c]
        if nxt != me:
            self._switch(me, nxt, wait=running_enabled or self.threads[me].state != DONE)

    def _switch(self, me, nxt, wait=True):
        self.switches += 1
        t = self.threads[nxt]
        if t.state == BLOCKED:
            t.state = READY
            t.blocked_on = None
        if t.state == NEW:
            t.state = READY
            t.started = True
            t.thread.start()
        self.current = nxt
        t.baton.release()
        if wait:
            self.threads[me].baton.acquire()
            if self.abort is not None:
                raise self.abort

    def _abort(self, exc):
        self.abort = exc
        for t in self.threads.values():
            t.baton.release()
        raise exc

    # ---- blocking and finishing -------------------------------------------------------------------
    def block_on(self, future):
        """Called by the running thread when it has to wait for `future` (a _Future)."""
        me = self.me()
        while not future.done():
            if self.abort is not None:
                raise self.abort
            t = self.threads[me]
            t.state = BLOCKED
            t.blocked_on = future
            enabled = self._enabled(None)
            enabled = [e for e in enabled if e != me]
            if not enabled:
                self._abort(Deadlock("thread %d waits for a future and no thread is enabled" % me))
            if len(enabled) == 1:
                self._switch(me, enabled[0])
            else:
                self._choose(me, enabled, False, ("block", me))
            t.state = READY
            t.blocked_on = None

    def _finish(self, me):
        t = self.threads[me]
        t.state = DONE
        enabled = self._enabled(None)
        if not enabled:
            if any(o.state != DONE for o in self.threads.values()):
                self.abort = Deadlock("thread %d finished and no thread is enabled" % me)
                for o in self.threads.values():
                    o.baton.release()
            return
        if len(enabled) == 1:
            self._switch(me, enabled[0], wait=False)
        else:
            idx = len(self.choices)
            c = self.prefix[idx] if idx < len(self.prefix) else 0
            if c >= len(enabled):
                self.abort = ReplayDivergence("choice %d at finish point %d but only %d enabled" % (c, idx, len(enabled)))
                for o in self.threads.values():
                    o.baton.release()
                return
            self.choices.append(c)
            self.points.append((len(enabled), False, ("finish", me)))
            self._switch(me, enabled[c], wait=False)

    # ---- tasks ---------------------------------------------------------------------------------------
    def spawn(self, fn, *args, **kwargs):
        tid = max(self.threads) + 1
        t = _T(tid)
        t.state = NEW
        fut = _Future(self, t)
        sched = self

        def body():
            sched._ident[threading.get_ident()] = tid
            t.baton.acquire()
            if sched.abort is not None:
                return
            sys.settrace(sched.tracer)
            try:
                t.result = fn(*args, **kwargs)
            except SchedulerAbort:
                sys.settrace(None)
                return
            except BaseException as ex:      # delivered through future.result(), as a real pool does
                t.exc = ex
            sys.settrace(None)
            sched._finish(tid)
        t.thread = threading.Thread(target=body, name="verif-task-%d" % tid)
        t.thread.daemon = True
        self.threads[tid] = t
        return fut

    def run_main(self, fn):
        """Runs fn() as thread 0 under the scheduler and waits for every task to end."""
        global _ACTIVE
        self.register_main()
        old = sys.gettrace()
        _ACTIVE = self
        try:
            sys.settrace(self.tracer)
            try:
                res = fn()
            finally:
                sys.settrace(old)
            # let every remaining task run to completion (a pool's shutdown(wait=True))
            for t in list(self.threads.values()):
                if t.tid != 0:
                    self.block_on(_Future(self, t))
            if self.abort is not None:
                raise self.abort
            for t in self.threads.values():
                if t.tid != 0 and t.thread.is_alive():
                    t.thread.join(5)
            return res
        finally:
            _ACTIVE = None

    def preemptions(self, upto=None):
        n = 0
        for (k, (ne, running_enabled, _)) in enumerate(self.points[:upto]):
            if running_enabled and self.choices[k] != 0:
                n += 1
        return n


class _Future(object):
    def __init__(self, sched, t):
        self.sched = sched
        self.t = t

    def done(self):
        return self.t.state == DONE

    def result(self, timeout=None):
        self.sched.block_on(self)
        if self.t.exc is not None:
            raise self.t.exc
        return self.t.result


class ControlledPool(object):
    """Stands in for concurrent.futures.ThreadPoolExecutor: submit() -> future with result()."""

    def __init__(self, sched):
        self.sched = sched

    def submit(self, fn, *args, **kwargs):
        return self.sched.spawn(fn, *args, **kwargs)


class Exploration(object):
    def __init__(self):
        self.executions = 0
        self.points_total = 0
        self.max_points = 0
        self.max_preemptions = 0
        self.capped = False
        self.stopped_early = False
        self.outcomes = {}


def explore(run, bound, max_executions=None, on_execution=None, should_stop=None):
    """run(prefix) -> (Scheduler, outcome).  Explores every schedule with <= bound preemptions.
    on_execution(sched, outcome) is called for each complete execution.  Returns Exploration."""
    ex = Exploration()
    stack = [[]]
    while stack:
        prefix = stack.pop()
        sched, outcome = run(prefix)
        ex.executions += 1
        ex.points_total += len(sched.points)
        ex.max_points = max(ex.max_points, len(sched.points))
        ex.max_preemptions = max(ex.max_preemptions, sched.preemptions())
        if sched.choices[:len(prefix)] != list(prefix):
            raise ReplayDivergence("executed choices %r do not extend prefix %r" % (sched.choices[:len(prefix)], prefix))
        if on_execution is not None:
            on_execution(sched, outcome)
        cost = sched.preemptions(len(prefix))
        for i in range(len(prefix), len(sched.points)):
            ne, running_enabled, _ = sched.points[i]
            c = cost + (1 if running_enabled else 0)
            if c <= bound:
                for alt in range(1, ne):
                    stack.append(sched.choices[:i] + [alt])
            # choice taken at i was the default 0: no preemption added going forward
        if max_executions is not None and ex.executions >= max_executions and stack:
            ex.capped = True
            break
        if should_stop is not None and should_stop() and stack:
            ex.stopped_early = True     # enough counterexamples for this case; the rest of the space is not needed
            break
    return ex


# =============================================================================================
# self tests on toy programs with known answers
# =============================================================================================

def _toy_lost_update(prefix):
    """Two tasks do a non-atomic increment of a shared counter with a point between read and write."""
    state = {"x": 0}
    s = Scheduler(prefix)

    def task():
        s.point("read")
        v = state["x"]
        s.point("write")
        state["x"] = v + 1

    def main():
        pool = ControlledPool(s)
        fs = [pool.submit(task), pool.submit(task)]
        for f in fs:
            f.result()
        return state["x"]
    return s, s.run_main(main)


def _toy_independent(prefix):
    order = []
    s = Scheduler(prefix)

    def mk(name):
        def task():
            s.point(name + "1")
            order.append(name)
        return task

    def main():
        pool = ControlledPool(s)
        fs = [pool.submit(mk("a")), pool.submit(mk("b"))]
        for f in fs:
            f.result()
        return tuple(order)
    return s, s.run_main(main)


def self_test():
    # lost update must be found with 1 preemption and not with 0
    outs0 = set()
    explore(_toy_lost_update, 0, on_execution=lambda s, o: outs0.add(o))
    outs1 = set()
    e1 = explore(_toy_lost_update, 1, on_execution=lambda s, o: outs1.add(o))
    assert outs0 == {2}, outs0
    assert outs1 == {1, 2}, outs1
    # tasks start in FIFO order (a pool's queue); overtaking a started task costs one preemption
    outs = set()
    explore(_toy_independent, 0, on_execution=lambda s, o: outs.add(o))
    assert outs == {("a", "b")}, outs
    outs = set()
    explore(_toy_independent, 1, on_execution=lambda s, o: outs.add(o))
    assert outs == {("a", "b"), ("b", "a")}, outs
    # determinism: replaying the same schedule twice gives identical choices and outcome
    a = _toy_lost_update([0, 1])
    b = _toy_lost_update([0, 1])
    assert a[0].choices == b[0].choices and a[1] == b[1]
    # replay divergence is a hard error
    try:
        _toy_lost_update([7])
        raise AssertionError("divergence not detected")
    except ReplayDivergence:
        pass
    return {"lost_update_executions_bound1": e1.executions}
