"""Bounded enumerators. Every generator yields each element of a finite, stated space exactly
once and in a canonical simplest-first order."""
import itertools


def strings(alphabet, max_len, min_len=0):
    """All sequences (as tuples) over `alphabet` with min_len <= length <= max_len."""
    for n in range(min_len, max_len + 1):
        for t in itertools.product(alphabet, repeat=n):
            yield t


def text_strings(alphabet, max_len, min_len=0):
    for t in strings(alphabet, max_len, min_len):
        yield "".join(t)


def subsets(items, max_size=None, min_size=0):
    items = list(items)
    hi = len(items) if max_size is None else min(max_size, len(items))
    for k in range(min_size, hi + 1):
        for c in itertools.combinations(items, k):
            yield c


def deviations(defaults, alternatives, max_dev):
    """All assignments that differ from `defaults` (a list) in at most `max_dev` positions;
    alternatives[i] lists the non-default values of position i. Fewest deviations first."""
    n = len(defaults)
    for k in range(0, max_dev + 1):
        for pos in itertools.combinations(range(n), k):
            for vals in itertools.product(*[alternatives[p] for p in pos]):
                out = list(defaults)
                for p, v in zip(pos, vals):
                    out[p] = v
                yield out


def linear_extensions(n, preds):
    """All topological orders of nodes 0..n-1; preds[i] = set of nodes that must precede i."""
    order = []
    used = [False] * n

    def rec():
        if len(order) == n:
            yield list(order)
            return
        for i in range(n):
            if not used[i] and all(used[p] for p in preds[i]):
                used[i] = True
                order.append(i)
                for o in rec():
                    yield o
                order.pop()
                used[i] = False
    return rec()


def chunks(seq, n):
    """Split a list into at most n contiguous chunks of near-equal size."""
    seq = list(seq)
    if not seq:
        return []
    n = max(1, min(n, len(seq)))
    k, m = divmod(len(seq), n)
    out = []
    i = 0
    for j in range(n):
        size = k + (1 if j < m else 0)
        out.append(seq[i:i + size])
        i += size
    return out


def shard(iterable, index, count):
    """Deterministic partition of a case stream: element j belongs to shard j % count."""
    for j, x in enumerate(iterable):
        if j % count == index:
            yield x


def trees(max_nodes, max_depth):
    """All ordered rooted forests shapes with <= max_nodes nodes and depth <= max_depth.
    A forest is a tuple of trees; a tree is a tuple of child trees."""
    def forests(n, d):
        # all forests with exactly n nodes, depth <= d
        if n == 0:
            yield ()
            return
        if d == 0:
            return
        for first in range(1, n + 1):
            for t in tree(first, d):
                for rest in forests(n - first, d):
                    yield (t,) + rest

    def tree(n, d):
        # a tree with exactly n nodes: root + forest with n-1 nodes of depth <= d-1
        for f in forests(n - 1, d - 1):
            yield f
    for n in range(0, max_nodes + 1):
        for f in forests(n, max_depth):
            yield f
