"""Explicit-state breadth-first search where the transition function is the real code.

A state is identified by the *event history* that reaches it (live objects rarely copy); the
caller supplies

    build(history)          -> live state object, rebuilt from the initial state by replaying events
                               (or restore(snapshot) if snapshots are cheap - see `snapshot` below)
    events(state)           -> iterable of enabled events (small finite menu, JSON-serialisable)
    step(state, event)      -> observation (any JSON-able value); mutates `state` by calling real code
    canon(state)            -> hashable canonical form (sorted, property-relevant fields only)
    check(state, event, observation, history) -> list of (clause, expected, observed) ([] = invariant holds)

The search de-duplicates on canon(state), evaluates `check` on every transition, keeps parent
pointers so that every reported violation carries its *shortest* trace, and reports measured
states / transitions / max depth.  A branch is not extended past a violating transition.
"""
import collections


class BFSResult(object):
    def __init__(self):
        self.states = 0
        self.transitions = 0
        self.max_depth = 0
        self.violations = []      # (clause, history(list of events), expected, observed)
        self.closed = True        # False when a depth / state cap cut the search
        self.distinct_observations = set()


def explore(build, events, step, canon, check, max_depth=None, max_states=None, init_histories=((),),
            snapshot=None, restore=None, on_state=None):
    """Runs the search to closure (or to max_depth / max_states) and returns a BFSResult.

    If snapshot/restore are given, a state is materialised by restore(snapshot_of_parent) followed
    by one step, instead of replaying the whole history (cheaper for long histories)."""
    res = BFSResult()
    seen = {}
    frontier = collections.deque()
    for h in init_histories:
        h = list(h)
        st = build(h)
        k = canon(st)
        if k in seen:
            continue
        seen[k] = h
        snap = snapshot(st) if snapshot else None
        frontier.append((h, snap))
        if on_state:
            on_state(st, h)
    while frontier:
        hist, snap = frontier.popleft()
        res.max_depth = max(res.max_depth, len(hist))
        if max_depth is not None and len(hist) >= max_depth:
            res.closed = False if any(True for _ in _events_of(build, restore, snap, hist, events)) else res.closed
            continue
        st0 = restore(snap) if restore else build(hist)
        evs = list(events(st0))
        for ev in evs:
            st = st0 if ev is evs[0] and not restore else (restore(snap) if restore else build(hist))
            obs = step(st, ev)
            res.transitions += 1
            try:
                res.distinct_observations.add(repr(obs)[:200])
            except Exception:
                pass
            bad = check(st, ev, obs, hist)
            if bad:
                for clause, expected, observed in bad:
                    res.violations.append((clause, hist + [ev], expected, observed))
                continue
            k = canon(st)
            if k not in seen:
                if max_states is not None and len(seen) >= max_states:
                    res.closed = False
                    continue
                seen[k] = hist + [ev]
                frontier.append((hist + [ev], snapshot(st) if snapshot else None))
                if on_state:
                    on_state(st, hist + [ev])
    res.states = len(seen)
    return res


def _events_of(build, restore, snap, hist, events):
    st = restore(snap) if restore else build(hist)
    return events(st)
