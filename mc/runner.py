"""Generic check runner: shards work units of a property driver over forked workers,
merges coverage statistics, confirms violations in a fresh interpreter, classifies them
against known_findings.json, writes evidence and replay files.

Driver protocol (module props/cNN.py):

    ID = "C13"; LEVEL = "exploration" | "fault_enumeration" | "model_checking"
    RULE = "how cases are enumerated and what makes one non-trivial"
    ASSUMPTIONS = [ ... ]
    def units(tier, seed) -> list[json]          # work units that *partition* the finite space
    def run_unit(unit, tier) -> mc.result.Result # executes every case of the unit against the real code
    def replay(case) -> list[violation dict]     # one case, rebuilt from its descriptor alone
    BOUNDS = {tier: {...}}                        # optional, copied into the evidence
"""
import hashlib
import importlib
import json
import multiprocessing as mp
import os
import random
import subprocess
import sys
import time
import traceback

from mc.result import Result, canon_json

MAX_CONFIRM_PER_CLAUSE = 3
MAX_LINES = 12


def _load_driver(pid):
    return importlib.import_module("props.%s" % pid.lower())


def _load_findings(here, pid):
    path = os.path.join(here, "known_findings.json")
    out = []
    if os.path.exists(path):
        with open(path) as fh:
            doc = json.load(fh)
        out = [f for f in doc.get("findings", []) if f.get("property") == pid]
    extra = os.environ.get("VERIF_FINDINGS")      # development aid only; registered commands never set it
    if extra and os.path.exists(extra):
        with open(extra) as fh:
            doc = json.load(fh)
        out += [f for f in (doc if isinstance(doc, list) else doc.get("findings", [])) if f.get("property") == pid]
    return out


def finding_matches(finding, viol):
    """A finding suppresses a violation only for the same clause and when every feature named
    in its `match` has exactly the recorded value in the violation's feature vector."""
    fc = finding.get("clause")
    if viol.get("clause") not in (fc if isinstance(fc, list) else [fc]):
        return False
    feats = viol.get("features") or {}
    m = finding.get("match") or {}
    if not m:
        return canon_json(finding.get("witness")) == canon_json(viol.get("case"))
    for k, v in m.items():
        if feats.get(k) != v:
            return False
    return True


_DRV = None


def _worker(args):
    idx, unit, tier = args
    t0 = time.time()
    try:
        res = _DRV.run_unit(unit, tier)
        if not isinstance(res, Result):
            raise TypeError("run_unit must return mc.result.Result")
        d = res.to_dict()
        for v in d.get("violations", []):
            v["_unit"] = unit
    except BaseException:
        d = Result().to_dict()
        d["harness_errors"] = ["unit %r: %s" % (unit, traceback.format_exc())]
    d["unit_index"] = idx
    d["unit_wall"] = time.time() - t0
    return d


def _write_replay(here, pid, viol, history=None):
    body = {"property": pid, "clause": viol["clause"], "case": viol["case"],
            "expected": viol.get("expected"), "observed": viol.get("observed"),
            "features": viol.get("features") or {}}
    if history is not None:
        # the case alone does not fail in a fresh interpreter, the case after the preceding cases of its work unit does:
        # the HISTORY (work unit executed from its start, in one fresh process) is the replay artefact
        body["history"] = history
    h = hashlib.sha1(canon_json([viol["clause"], viol["case"]]).encode()).hexdigest()[:16]
    d = os.path.join(here, "replays", pid)
    os.makedirs(d, exist_ok=True)
    path = os.path.join(d, h + ".json")
    body["replay"] = "./check %s --replay replays/%s/%s.json" % (pid, pid, h)
    with open(path, "w") as fh:
        json.dump(body, fh, indent=1, sort_keys=True, default=repr)
        fh.write("\n")
    return path


def _confirm_fresh(here, pid, path):
    """Replays a recorded case in a fresh interpreter. True = violation reproduced."""
    env = dict(os.environ)
    p = subprocess.run([sys.executable, os.path.join(here, "check"), pid, "--replay", path],
                       env=env, stdout=subprocess.PIPE, stderr=subprocess.STDOUT, timeout=600)
    return p.returncode == 1, p.stdout.decode("utf-8", "replace")[-2000:]


def do_replay(drv, pid, path):
    with open(path) as fh:
        doc = json.load(fh)
    if doc.get("history"):
        h = doc["history"]
        res = drv.run_unit(h["unit"], h["tier"])
        key = canon_json([doc["clause"], doc["case"]])
        for v in res.violations:
            if canon_json([v["clause"], v["case"]]) == key:
                print("REPRODUCED property=%s clause=%s (as the last step of a history in one process: work unit %s executed from "
                      "its start; the case alone passes - state carried between calls)" % (pid, v["clause"], canon_json(h["unit"])[:300]))
                print("  expected: %s" % json.dumps(v.get("expected"), default=repr)[:1500])
                print("  observed: %s" % json.dumps(v.get("observed"), default=repr)[:1500])
                return 1
        print("NOT-REPRODUCED property=%s clause=%s (history of work unit)" % (pid, doc["clause"]))
        return 0
    viols = drv.replay(doc["case"])
    same = [v for v in viols if v["clause"] == doc["clause"]]
    if same:
        v = same[0]
        print("REPRODUCED property=%s clause=%s" % (pid, v["clause"]))
        print("  expected: %s" % json.dumps(v.get("expected"), default=repr)[:1500])
        print("  observed: %s" % json.dumps(v.get("observed"), default=repr)[:1500])
        return 1
    if viols:
        print("DIFFERENT-CLAUSE property=%s clauses=%s" % (pid, sorted(set(v["clause"] for v in viols))))
        return 1
    print("NOT-REPRODUCED property=%s clause=%s" % (pid, doc["clause"]))
    return 0


def main(argv, here):
    global _DRV
    if argv and argv[0] == "--list":
        for f in sorted(os.listdir(os.path.join(here, "props"))):
            if f.startswith("c") and f.endswith(".py"):
                print(f[:-3].upper())
        return 0
    if len(argv) < 2:
        print(__doc__)
        return 2
    pid = argv[0].upper()
    os.chdir(here)
    # the code under test starts real child processes (grep, commands): they must never wait on OUR standard input
    # (a changed tree that turns a pattern into an option makes `grep` read stdin - a verdict, not a hang)
    try:
        _dn = os.open(os.devnull, os.O_RDONLY)
        os.dup2(_dn, 0)
        os.close(_dn)
    except OSError:
        pass
    import logging
    logging.disable(logging.CRITICAL)
    drv = _load_driver(pid)
    if argv[1] == "--replay":
        return do_replay(drv, pid, argv[2])
    tier = argv[1]
    if tier not in ("quick", "thorough"):
        print("tier must be quick or thorough")
        return 2
    seed = int(os.environ.get("VERIF_SEED", "0") or 0)
    jobs = int(os.environ.get("VERIF_JOBS", "0") or 0) or min(16, os.cpu_count() or 1)
    cap = float(os.environ.get("VERIF_CAP_S", "0") or 0) or getattr(drv, "CAP_S", {}).get(tier, 240 if tier == "quick" else 1500)
    t0 = time.time()

    units = list(drv.units(tier, seed))
    order = list(range(len(units)))
    random.Random(seed).shuffle(order)   # the seed permutes the visiting order only
    # heavy units first when the driver gives weights keeps the tail short; order is otherwise seed-driven
    weights = getattr(drv, "unit_weight", None)
    if weights:
        order.sort(key=lambda i: -weights(units[i]))
    _DRV = drv
    merged = Result()
    harness_errors = []
    done = 0
    capped = False
    nworkers = max(1, min(jobs, len(units)))
    if getattr(drv, "SERIAL", False):
        nworkers = 1
    tasks = [(i, units[i], tier) for i in order]
    if nworkers == 1:
        it = map(_worker, tasks)
        pool = None
    else:
        ctx = mp.get_context("fork")
        # FRESH_PROCESS_PER_UNIT (driver opt-in): every work unit runs in its own forked child, so state that the code under
        # test accumulates at module level (a memo that degrades as it grows, a cache) cannot leak from one unit into the
        # next or slow the later units down; the unit then starts from exactly the state its history replay starts from
        pool = ctx.Pool(nworkers, maxtasksperchild=1 if getattr(drv, "FRESH_PROCESS_PER_UNIT", False) else None)
        it = pool.imap_unordered(_worker, tasks, chunksize=1)
    unit_walls = []
    # watchdog: a unit that never returns (a changed tree can make real code wait for ever) must end the run with a
    # report instead of hanging it; generous, so that a slow machine never trips it
    hang_s = float(os.environ.get("VERIF_HANG_S", "0") or 0) or max(900.0, 4 * cap)

    def _results():
        if pool is None:
            for d in it:
                yield d
            return
        while True:
            try:
                yield it.next(timeout=hang_s)
            except StopIteration:
                return
            except mp.TimeoutError:
                harness_errors.append("no work unit completed within %.0f s: %d of %d units done, the remaining ones did "
                                      "not terminate (non-termination of the code under test or of the harness)"
                                      % (hang_s, done, len(units)))
                return
    try:
        for d in _results():
            harness_errors.extend(d.pop("harness_errors", []))
            unit_walls.append(d.pop("unit_wall"))
            d.pop("unit_index")
            merged.merge_dict(d)
            done += 1
            if time.time() - t0 > cap and done < len(units):
                capped = True
                break
    finally:
        if pool is not None:
            pool.terminate()
            pool.join()

    # ---- known-finding witnesses are re-executed on every run --------------------------------
    findings = _load_findings(here, pid)
    witness_status = {}
    for f in findings:
        try:
            vs = drv.replay(f["witness"])
        except Exception:
            harness_errors.append("witness %s: %s" % (f["id"], traceback.format_exc()))
            vs = []
        hit = [v for v in vs if finding_matches(f, v)]
        witness_status[f["id"]] = bool(hit)
        for v in vs:
            merged.add_violation(v)

    # ---- classify ---------------------------------------------------------------------------
    known_hits = {}
    new = []
    for v in merged.violations:
        fs = [f for f in findings if finding_matches(f, v)]
        if fs:
            known_hits.setdefault(fs[0]["id"], 0)
            known_hits[fs[0]["id"]] += 1
        else:
            new.append(v)
    # confirm new violations in a fresh interpreter before believing them
    confirmed = []
    per_clause = {}
    new.sort(key=lambda v: (len(canon_json(v["case"])), canon_json(v["case"])))   # simplest first
    for v in new:
        c = v["clause"]
        if per_clause.get(c, 0) >= MAX_CONFIRM_PER_CLAUSE:
            continue
        per_clause[c] = per_clause.get(c, 0) + 1
        path = _write_replay(here, pid, v)
        ok, out = _confirm_fresh(here, pid, path)
        if not ok and v.get("_unit") is not None:
            # second attempt: the same case as the last step of its work unit's history, again in a fresh interpreter.
            # Deterministic (run_unit depends on the unit descriptor and the tier only); what it shows is state that the
            # code under test carries from one call to the next inside one process.
            path = _write_replay(here, pid, v, history={"unit": v["_unit"], "tier": tier})
            ok, out2 = _confirm_fresh(here, pid, path)
            out = out + "\n" + out2
        if ok:
            confirmed.append((v, path))
        else:
            harness_errors.append("violation did not reproduce in a fresh interpreter: %s\n%s" % (path, out))
            try:
                os.remove(path)
            except OSError:
                pass

    wall = time.time() - t0
    cov = merged.coverage(drv, tier)
    cov["units_total"] = len(units)
    cov["units_completed"] = done
    cov["workers"] = nworkers
    if capped:
        cov["exhaustive"] = False
        cov["cap_hit"] = "wall-clock cap %.0fs: %d of %d units completed" % (cap, done, len(units))
    cov["known_findings_matched"] = known_hits
    cov["known_finding_witness_still_fails"] = witness_status
    cov["violating_cases_total"] = merged.violation_total
    cov["violating_cases_by_clause"] = dict(merged.violation_counts)
    bounds = getattr(drv, "BOUNDS", {}).get(tier)
    if bounds:
        cov["bounds"] = bounds
    ev = {"property_id": pid, "tier": tier, "seed": seed, "level": drv.LEVEL, "coverage": cov,
          "assumptions": list(getattr(drv, "ASSUMPTIONS", [])), "wall_s": round(wall, 3),
          "violations": len(confirmed)}
    if harness_errors:
        ev["coverage"]["harness_errors"] = harness_errors[:5]
    os.makedirs(os.path.join(here, "evidence"), exist_ok=True)
    with open(os.path.join(here, "evidence", pid + ".json"), "w") as fh:
        json.dump(ev, fh, indent=1, sort_keys=True, default=repr)
        fh.write("\n")

    print("%s %s seed=%d: units=%d/%d evaluations=%d nontrivial=%d states=%d transitions=%d outcomes=%d wall=%.1fs%s"
          % (pid, tier, seed, done, len(units), merged.evals, merged.nontrivial, merged.states,
             merged.transitions, len(merged.outcomes), wall, " CAPPED" if capped else ""))
    for f in findings:
        note = "" if witness_status.get(f["id"]) else " (witness no longer fails)"
        if witness_status.get(f["id"]) or known_hits.get(f["id"]):
            print("KNOWN-FINDING: property=%s %s [%s, %d matching cases]%s"
                  % (pid, f["what"], f["id"], known_hits.get(f["id"], 0), note))
        else:
            print("NOTE: known finding %s no longer observed; retire the entry" % f["id"])
    if harness_errors and not confirmed:
        for e in harness_errors[:5]:
            print("HARNESS-ERROR %s" % e.strip()[-3000:])
        return 2
    if confirmed:
        # a violation that reproduced in a fresh interpreter stands on its own; other candidates that did not reproduce
        # (state left behind by earlier cases of a worker on a changed tree) are reported as notes, not as the verdict
        for e in harness_errors[:3]:
            print("HARNESS-NOTE %s" % e.strip()[-600:].replace("\n", " | "))
        seen = set()
        for v, path in confirmed:
            if len(seen) >= MAX_LINES:
                break
            seen.add(path)
            print("VIOLATION property=%s replay=%s" % (pid, os.path.relpath(path, here)))
            print("  clause=%s case=%s" % (v["clause"], canon_json(v["case"])[:600]))
            print("  expected=%s" % json.dumps(v.get("expected"), default=repr)[:600])
            print("  observed=%s" % json.dumps(v.get("observed"), default=repr)[:600])
        return 1
    return 0
