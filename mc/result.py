"""Result accumulator shared by all drivers. Everything in it is *measured* by the run."""
import json

MAX_SAMPLES = 6
MAX_VIOLATIONS_KEPT = 40       # per unit / per merged run (counts are kept for all)
MAX_OUTCOMES = 100000


def json_safe(x):
    """Plain JSON data with string keys only (a violating observation may carry None / int / tuple keys)."""
    if isinstance(x, dict):
        return dict((k if isinstance(k, str) else "<%s>" % (repr(k),), json_safe(v)) for k, v in x.items())
    if isinstance(x, (list, tuple, set, frozenset)):
        return [json_safe(v) for v in (sorted(x, key=repr) if isinstance(x, (set, frozenset)) else x)]
    if x is None or isinstance(x, (str, int, float, bool)):
        return x
    return repr(x)


def canon_json(x):
    return json.dumps(json_safe(x), sort_keys=True, default=repr, ensure_ascii=True)


class Result(object):
    """Coverage counters for one work unit (or the merge of many).

    evals        complete executions of real code (cases run)
    nontrivial   number of *distinct* cases that satisfied the driver's non-triviality rule;
                 units partition the space and enumerate without repetition, so the sum is a
                 count of distinct cases
    states / transitions   explicit-state or schedule exploration bookkeeping (0 when unused)
    traces       complete traces (histories / schedules) executed against the implementation
    outcomes     set of distinct observed outcome fingerprints (vacuity guard)
    stats        free-form integer counters, summed on merge
    maxima       free-form integers, max-ed on merge (e.g. deepest trace, bound completed)
    """

    def __init__(self):
        self.evals = 0
        self.nontrivial = 0
        self.states = 0
        self.transitions = 0
        self.traces = 0
        self.outcomes = set()
        self.stats = {}
        self.maxima = {}
        self.samples = []
        self.violations = []
        self.violation_counts = {}
        self.violation_total = 0
        self.exhaustive = True
        self.notes = []

    # ---- recording -------------------------------------------------------------------------
    def case(self, nontrivial=False, outcome=None, sample=None):
        self.evals += 1
        if nontrivial:
            self.nontrivial += 1
        if outcome is not None and len(self.outcomes) < MAX_OUTCOMES:
            self.outcomes.add(outcome if isinstance(outcome, (str, int)) else canon_json(outcome))
        if sample is not None and len(self.samples) < MAX_SAMPLES:
            self.samples.append(sample)

    def stat(self, key, n=1):
        self.stats[key] = self.stats.get(key, 0) + n

    def maxi(self, key, n):
        if n > self.maxima.get(key, -1):
            self.maxima[key] = n

    def violation(self, clause, case, expected=None, observed=None, features=None):
        self.add_violation({"clause": clause, "case": case, "expected": expected,
                            "observed": observed, "features": features or {}})

    def add_violation(self, v):
        w_unit = v.get("_unit")
        v = {"clause": v["clause"], "case": json_safe(v.get("case")), "expected": json_safe(v.get("expected")),
             "observed": json_safe(v.get("observed")), "features": json_safe(v.get("features") or {})}
        if w_unit is not None:
            v["_unit"] = w_unit          # set by the runner: the work unit whose execution produced the violation
        self.violation_total += 1
        self.violation_counts[v["clause"]] = self.violation_counts.get(v["clause"], 0) + 1
        self._keep(v)

    def _keep(self, v):
        # keep the first few of every (clause, feature vector) so known / new classification
        # sees every *kind* of violation, not only the first kind found
        key = (v["clause"], canon_json(v.get("features") or {}))
        n = sum(1 for w in self.violations if (w["clause"], canon_json(w.get("features") or {})) == key)
        if n < 3 and len(self.violations) < MAX_VIOLATIONS_KEPT * 10:
            ck = canon_json([v["clause"], v["case"]])
            if not any(canon_json([w["clause"], w["case"]]) == ck for w in self.violations):
                self.violations.append(v)

    # ---- merge / export ----------------------------------------------------------------------
    def to_dict(self):
        return {"evals": self.evals, "nontrivial": self.nontrivial, "states": self.states,
                "transitions": self.transitions, "traces": self.traces,
                "outcomes": sorted(self.outcomes), "stats": self.stats, "maxima": self.maxima,
                "samples": self.samples, "violations": self.violations,
                "violation_counts": self.violation_counts, "violation_total": self.violation_total,
                "exhaustive": self.exhaustive, "notes": self.notes}

    def merge_dict(self, d):
        self.evals += d["evals"]
        self.nontrivial += d["nontrivial"]
        self.states += d["states"]
        self.transitions += d["transitions"]
        self.traces += d["traces"]
        if len(self.outcomes) < MAX_OUTCOMES:
            self.outcomes.update(d["outcomes"])
        for k, v in d["stats"].items():
            self.stats[k] = self.stats.get(k, 0) + v
        for k, v in d["maxima"].items():
            self.maxi(k, v)
        for s in d["samples"]:
            if len(self.samples) < MAX_SAMPLES:
                self.samples.append(s)
        for k, v in d["violation_counts"].items():
            self.violation_counts[k] = self.violation_counts.get(k, 0) + v
        self.violation_total += d["violation_total"]
        for v in d["violations"]:
            self._keep(v)
        self.exhaustive = self.exhaustive and d["exhaustive"]
        for n in d["notes"]:
            if n not in self.notes and len(self.notes) < 20:
                self.notes.append(n)

    def coverage(self, drv, tier):
        cov = {"evaluations": self.evals, "distinct_nontrivial": self.nontrivial,
               "rule": getattr(drv, "RULE", ""), "samples": self.samples,
               "exhaustive": bool(self.exhaustive), "distinct_outcomes": len(self.outcomes)}
        if drv.LEVEL == "model_checking" or self.states:
            cov["states"] = self.states
            cov["transitions"] = self.transitions
            cov["traces_validated_against_impl"] = self.traces
        if self.stats:
            cov["counters"] = dict(sorted(self.stats.items()))
        if self.maxima:
            cov["maxima"] = dict(sorted(self.maxima.items()))
        if self.notes:
            cov["notes"] = self.notes
        return cov
